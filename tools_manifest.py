#!/venv/bin/python
"""Regenerate MANIFEST.json from the property modules present in sfsim/props (kept valid at all times)."""
import json, os, sys, importlib
HERE = os.path.dirname(os.path.abspath(__file__))
sys.path.insert(0, HERE)
os.environ.setdefault("PYTHONHASHSEED", "0")
props = [json.loads(l) for l in open(os.path.join(HERE, "properties.jsonl"))]
NA = {
 "C14": "pure arithmetic on Hardware/Storage values: no schedule, clock, fault or interleaving for a simulator to decide; exercised indirectly by C10/C11 which recompute reservations independently",
 "C20": "synchronous in-memory graph structures private to one recovery call: a pure data structure with no concurrency, time or I/O; exercised indirectly by every C16-C19 run",
 "C28": "binding resolution is a pure function of the StreamFlow file: nothing for a seed to schedule or fault",
 "C30": "the argv/env/redirections a CWL tool receives are a pure function of tool description and inputs (one spawn, no schedule or fault in the statement); C29 tools echo their arguments so gross errors surface there",
 "C31": "static dependency analysis vs evaluated reads is a pure function of the expression text",
 "C32": "remap_path/remap_token_value are pure functions of their arguments",
 "C33": "compare_tags/get_tag/job-name split are pure functions; C01/C06 use >=10 elements/iterations so numeric order matters there",
}
checks = []
na = []
for p in props:
    pid = p["id"]
    path = os.path.join(HERE, "sfsim", "props", pid.lower() + ".py")
    if os.path.exists(path) and pid not in NA:
        src = open(path).read()
        ns = {}
        # read constants without importing streamflow
        import ast
        tree = ast.parse(src)
        for node in tree.body:
            if isinstance(node, ast.Assign) and len(node.targets) == 1 and isinstance(node.targets[0], ast.Name) and node.targets[0].id in ("LEVEL", "LEVEL_TEXT", "LEVEL_NOTE", "TECHNIQUE", "DESIGN_REF"):
                ns[node.targets[0].id] = ast.literal_eval(node.value)
        checks.append({
            "property_id": pid,
            "quick_cmd": f"./check {pid} --tier quick",
            "thorough_cmd": f"./check {pid} --tier thorough",
            "evidence_file": f"/verif/evidence/{pid}.json",
            "replay_cmd_template": f"./check {pid} --replay {{path}}",
            "engine": "sfsim",
            "level_claimed": {
                "category": ns.get("LEVEL", "exploration"),
                "text": ns.get("LEVEL_TEXT", "seeded search over legal schedules, workloads and faults under a deterministic simulator; evidence, not proof"),
                "design_ref": ns.get("DESIGN_REF", f"DESIGN.md section 4, {pid}"),
            },
            "level_note": ns.get("LEVEL_NOTE", "trusts CPython asyncio primitives on the simulated loop, the sqlite3 engine, and the harness fakes listed in the evidence file (components.stub)"),
            "technique": ns.get("TECHNIQUE", "deterministic simulation with fault injection: seeded virtual-time asyncio loop + I/O seams, invariant/oracle per run, tape shrinking and replay"),
        })
    else:
        na.append({"property_id": pid, "reason": NA.get(pid, "check not built yet in this round (planned: see DESIGN.md section 9); not claimed until its quick check exists")})
m = {
 "version": 1,
 "setup_cmd": "./check --selftest import",
 "hooks": {
   "guard": "STREAMFLOW_VERIF",
   "enable": "no source hooks in /repo: every seam is a module attribute replaced at run time by sfsim.seams.install() in the checking process only (./check exports STREAMFLOW_VERIF=1 for information)",
   "baseline_off_cmd": "cd /repo && /venv/bin/python -m pytest -ra -q -p no:cacheprovider --timeout=900 --continue-on-collection-errors",
   "source_commits": [],
   "add_only": True,
 },
 "engines": [{"name": "sfsim", "path": "/verif/sfsim", "serves_properties": [c["property_id"] for c in checks],
              "kind_free_text": "deterministic simulator: custom asyncio event loop with virtual clock, FIFO-server SQLite seam, fake processes/streams/connectors/batch cluster, one seeded tape for workload+schedule+faults, shrinker, replay files"}],
 "checks": checks,
 "not_applicable": na,
 "notes": "Checks import /repo at run time (SFSIM_REPO overrides for mutant self-tests), so they always see the current working tree. Exit 0 = held (KNOWN-FINDING lines allowed), 1 = VIOLATION, 2 = HARNESS-ERROR.",
}
json.dump(m, open(os.path.join(HERE, "MANIFEST.json"), "w"), indent=1)
print("claimed", len(checks), "not_applicable", len(na))
