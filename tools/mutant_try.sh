#!/bin/sh
# usage: mutant_try.sh <patch-or-pyscript> <check-id> [extra check args]  — apply to a scratch copy, run quick check against it, remove copy
P="$1"; ID="$2"; shift 2
D=$(mktemp -d /tmp/sfsim-mut-XXXXXX)
cp -r /repo/. "$D/" 
case "$P" in
  *.py) (cd "$D" && /venv/bin/python "$P") ;;
  *) (cd "$D" && git update-index -q --refresh; cd "$D" && (git apply "$P" 2>/dev/null || git apply -3 "$P")) || { echo "patch failed"; rm -rf "$D"; exit 3; } ;;
esac
(cd "$D" && git diff --stat | tail -1)
SFSIM_REPO="$D" /verif/check "$ID" "$@" 2>&1 | tail -6
rc=$?
rm -rf "$D"
exit $rc
