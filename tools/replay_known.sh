#!/bin/sh
# usage: replay_known.sh [PROP]  — replays every open known-finding replay file; prints the ones that do not reproduce exactly
cd /verif
/venv/bin/python - "$1" <<'PY'
import json, subprocess, sys
want = sys.argv[1] if len(sys.argv) > 1 and sys.argv[1] else None
for l in open('/verif/known_findings.jsonl'):
    if not l.strip(): continue
    d = json.loads(l)
    if d['status'] != 'open' or not d.get('replay') or (want and d['property'] != want): continue
    p = subprocess.run(['/verif/check', d['property'], '--replay', d['replay']], capture_output=True, text=True)
    last = (p.stdout.strip().splitlines() or ['?'])[-1][:110]
    ok = p.returncode == 0 and last.startswith('KNOWN-FINDING')
    print(('ok   ' if ok else 'BAD  ') + d['property'], d['replay'], '' if ok else '-> rc=%d %s' % (p.returncode, last))
PY
