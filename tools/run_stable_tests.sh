#!/bin/sh
# usage: run_stable_tests.sh <checkout-dir>   — runs the 171 pinned stable tests against that checkout
D="${1:-/repo}"
cd "$D" || exit 2
IDS=$(/venv/bin/python - <<'PY'
import json
b=json.load(open('/root/.vp/BASELINE.json'))
out=[]
for t in b['stable_pass']:
    mod,rest=t.split('::',1)
    out.append(mod.replace('.','/')+'.py::'+rest)
print("\n".join(out))
PY
)
echo "$IDS" > /tmp/stable_ids.$$.txt
PYTHONPATH="$D" PYTHONDONTWRITEBYTECODE=1 /venv/bin/python -m pytest -q -p no:cacheprovider --timeout=900 -o addopts="" $(cat /tmp/stable_ids.$$.txt | tr '\n' ' ') > /tmp/stable_out.$$.txt 2>&1
rc=$?
tail -15 /tmp/stable_out.$$.txt
rm -f /tmp/stable_ids.$$.txt /tmp/stable_out.$$.txt
exit $rc
