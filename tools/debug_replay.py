"""usage: PYTHONHASHSEED=0 /venv/bin/python -B tools/debug_replay.py <replay.json>  — replays with StreamFlow INFO/DEBUG logging on stderr."""
import json, logging, os, sys
sys.path.insert(0, os.path.dirname(os.path.dirname(os.path.abspath(__file__))))
from sfsim import runner, seams
doc = json.load(open(sys.argv[1]))
mod = runner.load_prop(doc["property"])
seams.install()
from streamflow.log_handler import logger
logger.setLevel(logging.DEBUG if len(sys.argv) < 3 else getattr(logging, sys.argv[2]))
logger.disabled = False
for h in logger.handlers: h.setLevel(logging.DEBUG)
logger.addHandler(logging.StreamHandler())
o = runner.run_case(mod, doc["seed"], doc["params"], replay=doc["tape"], keep_labels=True)
print(o["status"], o.get("klass"), o.get("signature")); print(o.get("message", "")[:3000]); print(o.get("details"))
