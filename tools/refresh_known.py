#!/usr/bin/env python3
"""usage: refresh_known.py PROP [extra check args]  — re-record the replay files of PROP's open known findings that no longer reproduce
exactly (e.g. after a seam changed the tape layout or the digests): runs the check with the known list disabled, then copies a fresh
minimised replay with the SAME signature over the stale file. Never edits known_findings.jsonl."""
import glob, json, os, shutil, subprocess, sys, time
pid = sys.argv[1]
ents = [json.loads(l) for l in open('/verif/known_findings.jsonl') if l.strip()]
stale = []
for d in ents:
    if d['status'] == 'open' and d['property'] == pid and d.get('replay'):
        p = subprocess.run(['/verif/check', pid, '--replay', d['replay']], capture_output=True, text=True)
        last = (p.stdout.strip().splitlines() or ['?'])[-1]
        if not (p.returncode == 0 and last.startswith('KNOWN-FINDING')):
            stale.append(d)
print("stale:", [d['signature'] for d in stale])
if not stale:
    sys.exit(0)
t0 = time.time()
subprocess.run(['/verif/check', pid] + sys.argv[2:], env=os.environ | {"SFSIM_NO_KNOWN": "1", "SFSIM_COLLECT": "1"}, stdout=subprocess.DEVNULL, stderr=subprocess.DEVNULL)
fresh = {}
for f in glob.glob(f'/verif/replays/{pid}-*.json'):
    if os.path.getmtime(f) < t0:
        continue
    r = json.load(open(f))
    s = r['violation']['signature']
    if s not in fresh or len(r['tape']) < fresh[s][1]:
        fresh[s] = (f, len(r['tape']))
for d in stale:
    if d['signature'] in fresh:
        shutil.copy(fresh[d['signature']][0], '/verif/' + d['replay'])
        print("refreshed", d['signature'], fresh[d['signature']][1])
    else:
        print("NOT FOUND in this batch:", d['signature'])
