#!/usr/bin/env python3
"""usage: adopt_known.py <PROP> <what.json>  — for every replays/<PROP>-*.json whose signature is not listed yet and has a
text in what.json ({signature: what}), copy the shortest replay to known/ and append an open entry. Prints unlisted ones."""
import json, glob, shutil, sys
pid, whatf = sys.argv[1:3]
WHAT = json.load(open(whatf))
known = {json.loads(l)['signature'] for l in open('/verif/known_findings.jsonl') if l.strip() and json.loads(l)['property'] == pid}
seen = {}
for f in sorted(glob.glob(f'/verif/replays/{pid}-*.json')):
    d = json.load(open(f)); s = d['violation']['signature']
    if s not in seen or len(d['tape']) < seen[s][1]:
        seen[s] = (f, len(d['tape']))
with open('/verif/known_findings.jsonl', 'a') as out:
    for s, (f, n) in seen.items():
        if s in known:
            continue
        if s not in WHAT:
            print("UNLISTED", s, f); continue
        dst = f'known/{pid}-' + s.replace(':', '-').replace('_', '-').replace('/', '-').replace(' ', '-').replace('+', '-')[:80] + '.json'
        shutil.copy(f, '/verif/' + dst)
        out.write(json.dumps({"status": "open", "property": pid, "signature": s, "what": WHAT[s], "replay": dst}) + "\n")
        print("added", s, n)
