#!/usr/bin/env python3
"""usage: rerecord.py <replay.json> <out.json>  — re-run a replay tape and write a replay file with the violation as classified NOW
(after a signature was refined). Refuses if the run is not a violation."""
import json, os, sys
sys.path.insert(0, os.path.dirname(os.path.dirname(os.path.abspath(__file__))))
from sfsim import runner
doc = json.load(open(sys.argv[1]))
mod = runner.load_prop(doc["property"])
o = runner.run_case(mod, doc["seed"], doc["params"], replay=doc["tape"], keep_labels=True)
assert o["status"] == "violation", o["status"]
o = runner.shrink_violation(mod, o, budget_execs=150, budget_s=60)
runner.write_replay(sys.argv[2], doc["property"], o, runner.repo_head())
print(o["klass"], o["signature"], len(o["tape"]))
