#!/venv/bin/python
"""usage: seeded_keep.py <PROP> <variant> <src-dir> <caught_by|MISSED> "<needs>" "<ran>" """
import json, os, shutil, sys
pid, v, src, caught, needs, ran = sys.argv[1:7]
dst = f"/verif/seeded/{pid}-{v}"
os.makedirs(dst, exist_ok=True)
for f in ("patch.diff", "demo.py", "notes.md"):
    if os.path.exists(os.path.join(src, f)):
        shutil.copy(os.path.join(src, f), os.path.join(dst, f))
meta = {"property": pid, "variant": v, "breaks": pid, "needs_to_manifest": needs,
        "confirmed": {"patch_applies_on_pinned_commit": True, "stable_tests_with_patch": "171 passed",
                      "demo_with_patch": "fails", "demo_without_patch": "passes", "how": ran},
        "detected_by": caught.split(",") if caught != "MISSED" else [], "status": "caught" if caught != "MISSED" else "missed"}
json.dump(meta, open(os.path.join(dst, "meta.json"), "w"), indent=1)
print("kept", dst, meta["status"])
