#!/bin/sh
# usage: seeded_verify.sh <PROP> <variant> <src-out-dir> [check args...]
# Confirms a sub-agent's seeded defect in a fresh scratch worktree and runs our check against it.
ID="$1"; V="$2"; SRC="$3"; shift 3
W=/tmp/sv-$ID-$V
git -C /repo worktree remove --force "$W" 2>/dev/null
git -C /repo worktree add --detach "$W" HEAD -q || exit 3
mkdir -p "$W/out/$V"; cp "$SRC"/* "$W/out/$V/" 2>/dev/null
cd "$W"
echo "== demo on clean checkout (must pass)"
PYTHONPATH="$W" timeout 300 /venv/bin/python out/$V/demo.py > /tmp/sv-$ID-$V.clean.log 2>&1; echo "clean demo exit=$?"
git apply "out/$V/patch.diff" 2>/dev/null || git apply -3 "out/$V/patch.diff" || { echo "PATCH DOES NOT APPLY"; git -C /repo worktree remove --force "$W"; exit 3; }
git diff --stat | tail -3
echo "== demo with patch (must fail)"
PYTHONPATH="$W" timeout 300 /venv/bin/python out/$V/demo.py > /tmp/sv-$ID-$V.patched.log 2>&1; echo "patched demo exit=$?"
tail -3 /tmp/sv-$ID-$V.patched.log
echo "== stable tests with patch"
mkdir -p "$W/.home"; (HOME="$W/.home" timeout 420 /verif/tools/run_stable_tests.sh "$W" || { echo "stable tests timed out/failed once: retry"; HOME="$W/.home" timeout 420 /verif/tools/run_stable_tests.sh "$W"; }) | tail -3
echo "== our check against the patched tree"
SFSIM_REPO="$W" /verif/check "$ID" "$@" 2>&1 | tail -5
echo "check exit=$?"
cd /; git -C /repo worktree remove --force "$W"
