"""usage: PYTHONHASHSEED=0 /venv/bin/python -B tools/c29_show.py <replay.json> [--log]  — regenerate the document of a C29 replay, run both runners, print everything."""
import json, logging, os, sys
sys.path.insert(0, os.path.dirname(os.path.dirname(os.path.abspath(__file__))))
from sfsim import runner, core
from sfsim.tape import Tape
from sfsim.harness import cwlgen, cwlref, cwlrun
doc = json.load(open(sys.argv[1]))
tape = Tape(seed=doc["seed"], replay=doc["tape"])
sim = core.Sim(tape, prop="C29", max_steps=3_000_000, wall_cap=120.0, max_vtime=1e7)
if "--log" in sys.argv:
    from streamflow.log_handler import logger
    logger.setLevel(logging.DEBUG); logger.addHandler(logging.StreamHandler())
d = os.path.join(sim.scratch, "doc"); os.makedirs(d)
gen = cwlgen.generate(tape, d, max_steps=doc["params"].get("max_steps", 6), grammar=doc["params"].get("grammar", 1))
def strip(d):
    if isinstance(d, dict):
        d = {k: strip(v) for k, v in d.items() if k != "requirements"}
        if d.get("class") in ("ExpressionTool", "CommandLineTool"):
            return {"class": d["class"], "inputs": {k: v["type"] for k, v in d["inputs"].items()}, "out": d["outputs"]["o"]["type"], "expr": d.get("expression", d.get("baseCommand"))}
        return d
    if isinstance(d, list):
        return [strip(v) for v in d]
    return d
if "--full" in sys.argv:
    print("WF:", json.dumps(gen["doc"], indent=1))
else:
    dd = strip(gen["doc"])
    print("INPUTS:", json.dumps(dd["inputs"])); print("OUTPUTS:", json.dumps(dd["outputs"]))
    for k, v in dd["steps"].items():
        print("STEP", k, json.dumps(v))
print("JOB:", json.dumps(gen["job"]))
ref = cwlref.run(gen["wf"], gen["jobfile"], os.path.join(sim.scratch, "ref"))
print("REF:", ref[0], json.dumps(ref[1])[:3000] if ref[0] == "ok" else ref[1][-1500:])
try:
    r = sim.run(cwlrun.run_cwl(sim, gen["wf"], gen["jobfile"], os.path.join(sim.scratch, "sf"), "run0"))
    print("SF:", r.status, json.dumps(r.outputs)[:3000] if r.status == "ok" else r.error); print("ERRORS:", sim.errors[-3:])
except Exception as e:
    print("SF raised", type(e).__name__, e); print(sim.deadlock_report() if hasattr(sim, "deadlock_report") else "")
sim.close()
