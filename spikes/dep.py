import sys, asyncio, os, logging, warnings
sys.path.insert(0,'/verif/spikes'); sys.path.insert(0,'/repo')
warnings.simplefilter("ignore")
import simloop, simsqlite
import streamflow.persistence.sqlite as sq
sq.aiosqlite = simsqlite
from streamflow.main import build_context
from streamflow.core.deployment import Connector, DeploymentConfig, WrapsConfig
from streamflow.deployment.wrapper import ConnectorWrapper
from streamflow.deployment.connector import connector_classes
from streamflow.log_handler import logger
logger.setLevel(logging.CRITICAL+1)
LOG=[]
class FC(Connector):
    def __init__(self, deployment_name, config_dir, transferBufferSize=64, fail=False, dly=5, udly=5):
        super().__init__(deployment_name, config_dir, transferBufferSize); self.fail=fail; self.dly=dly; self.udly=udly
    async def deploy(self, external):
        loop=asyncio.get_event_loop(); LOG.append((loop.time(),"deploy-start",self.deployment_name,id(self)%1000))
        await asyncio.sleep(self.dly)
        if self.fail: LOG.append((loop.time(),"deploy-FAIL",self.deployment_name)); raise RuntimeError("boom")
        LOG.append((loop.time(),"deploy-end",self.deployment_name,id(self)%1000))
    async def undeploy(self, external):
        loop=asyncio.get_event_loop(); LOG.append((loop.time(),"undeploy-start",self.deployment_name,id(self)%1000))
        await asyncio.sleep(self.udly); LOG.append((loop.time(),"undeploy-end",self.deployment_name,id(self)%1000))
    @classmethod
    def get_schema(cls): return "{}"
    async def copy_local_to_remote(self,*a,**k): pass
    async def copy_remote_to_local(self,*a,**k): pass
    async def copy_remote_to_remote(self,*a,**k): pass
    async def get_available_locations(self, service=None): return {}
    async def run(self,*a,**k): return None
    async def get_shell(self,*a,**k): raise NotImplementedError
    async def get_stream_reader(self,*a,**k): raise NotImplementedError
    async def get_stream_writer(self,*a,**k): raise NotImplementedError
class FW(ConnectorWrapper, FC):
    def __init__(self, deployment_name, config_dir, connector, service, transferBufferSize=64, fail=False, dly=5, udly=5):
        ConnectorWrapper.__init__(self, deployment_name, config_dir, connector, service, transferBufferSize)
        self.fail=fail; self.dly=dly; self.udly=udly
    deploy = FC.deploy; undeploy = FC.undeploy
connector_classes["fc"]=FC; connector_classes["fw"]=FW

def run(coro_fn, seed=0):
    LOG.clear()
    loop = simloop.SimLoop(seed); asyncio.set_event_loop(loop)
    try:
        r = loop.run_until_complete(coro_fn()); print("  result:", r)
    except simloop.Deadlock:
        print("  DEADLOCK; pending:", [t.get_coro().__qualname__ for t in asyncio.all_tasks(loop) if not t.done()])
    except Exception as e:
        print("  EXC", type(e).__name__, e)
    finally:
        for l in LOG: print("   ", l)
        loop.close()

def ctx(deployments=None):
    return build_context({"database":{"type":"default","config":{"connection":":memory:"}},"path":os.getcwd(), "deployments": deployments or {}})

# Scenario A: undeploy in flight, then deploy A + waiter B  -> B returns before deploy done?
async def scenA():
    c=ctx(); dm=c.deployment_manager
    cfg=DeploymentConfig(name="d", type="fc", config={"dly":5,"udly":10}, external=False, lazy=False)
    await dm.deploy(cfg)
    t_u=asyncio.create_task(dm.undeploy("d"))
    await asyncio.sleep(1)
    cfg2=DeploymentConfig(name="d", type="fc", config={"dly":20,"udly":1}, external=False, lazy=False)
    tA=asyncio.create_task(dm.deploy(cfg2)); await asyncio.sleep(1)
    async def B():
        await dm.deploy(DeploymentConfig(name="d", type="fc", config={"dly":20}, external=False, lazy=False))
        return asyncio.get_event_loop().time()
    tB=asyncio.create_task(B())
    tb=await tB; await tA; await t_u
    return f"B returned at t={tb} (deploy of new connector ends at t=22)"
print("A: deploy racing with in-flight undeploy"); run(scenA)

# Scenario B: chain I <- W <- W2 ; undeploy_all order
async def scenB():
    deps={"I":{"type":"fc","config":{},"external":False,"lazy":False,"scheduling_policy":None},
          "W":{"type":"fw","config":{},"external":False,"lazy":False,"scheduling_policy":None,"wraps":"I"}}
    c=ctx(deps); dm=c.deployment_manager
    await dm.deploy(DeploymentConfig(name="W2", type="fw", config={}, external=False, lazy=False, wraps=WrapsConfig("W")))
    await dm.undeploy_all()
    return "done"
print("B: wraps chain of 3, undeploy_all"); run(scenB)

# Scenario C: inner deploy fails while another request waits for the wrapper
async def scenC():
    deps={"I":{"type":"fc","config":{"fail":True},"external":False,"lazy":False,"scheduling_policy":None}}
    c=ctx(deps); dm=c.deployment_manager
    cfg=lambda: DeploymentConfig(name="W", type="fw", config={}, external=False, lazy=False, wraps=WrapsConfig("I"))
    r=await asyncio.gather(dm.deploy(cfg()), dm.deploy(cfg()), return_exceptions=True)
    return r
print("C: inner deploy fails, two requests for wrapper"); run(scenC)
