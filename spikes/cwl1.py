import sys, asyncio, os, subprocess, shlex, logging, warnings, argparse, io, contextlib, json, time
sys.path.insert(0,'/verif/spikes'); sys.path.insert(0,'/repo')
warnings.simplefilter("ignore")
import simloop, simsqlite
import streamflow.persistence.sqlite as sq
sq.aiosqlite = simsqlite
import streamflow.core.utils as cu
async def run_in_subprocess(location, command, capture_output, timeout):
    await asyncio.get_event_loop().io("proc", 30)
    p = subprocess.run(shlex.split(" ".join(command)), env=os.environ|location.environment, stdin=subprocess.DEVNULL,
        stdout=subprocess.PIPE if capture_output else subprocess.DEVNULL, stderr=subprocess.PIPE if capture_output else subprocess.DEVNULL)
    return (p.stdout.decode().strip(), p.returncode) if capture_output else None
cu.run_in_subprocess = run_in_subprocess
from streamflow.log_handler import logger
logger.setLevel(logging.CRITICAL+1)
from streamflow.cwl import runner
async def main(outdir):
    args = runner.parser.parse_args(["--outdir", outdir, "/verif/spikes/cwl/wf.cwl", "/verif/spikes/cwl/job.yml"])
    await runner._async_main(args)
for seed in range(3):
    loop=simloop.SimLoop(seed); asyncio.set_event_loop(loop)
    buf=io.StringIO(); t=time.time()
    try:
        with contextlib.redirect_stdout(buf):
            loop.run_until_complete(main(f"/verif/spikes/cwl/sfout{seed}"))
        print(seed, json.loads(buf.getvalue()), "steps", loop.steps, f"{time.time()-t:.2f}s vtime {loop.time():.3f}")
    except simloop.Deadlock:
        print(seed,"DEADLOCK")
    except Exception as e:
        import traceback; traceback.print_exc()
    finally: loop.close()
