import sys, hashlib, uuid, random
exec(open('rec.py').read().split("import time\nfor seed in range")[0])
import asyncio.tasks as at
class DLoop(simloop.SimLoop):
    def __init__(self, seed):
        super().__init__(seed); self.h = hashlib.sha256()
    def _run_once(self):
        sched=self._scheduled
        super()._run_once()
        self.h.update(f"{self._now:.6f}|{self.steps}|{self._task_seq};".encode())
def run(seed):
    r = random.Random(seed ^ 0xABCDEF)
    uuid.uuid4 = lambda: uuid.UUID(int=r.getrandbits(128), version=4)
    loop = DLoop(seed); asyncio.set_event_loop(loop)
    try:
        res = loop.run_until_complete(main(1, RecoveryTranslator.FAIL_STOP, RecoveryTranslator.EXECUTE, 4))
        st = "OK"+str(sorted(res[1].items()))
    except Exception as e:
        st = "EXC "+type(e).__name__
    finally:
        loop.close()
    return loop.h.hexdigest()[:16], loop.steps, st
for s in (int(x) for x in sys.argv[1:]):
    print(s, *run(s))
