import sys, asyncio, io, os, tarfile, tempfile, shutil, signal
sys.path.insert(0,'/repo')
from streamflow.deployment import aiotarstream
from streamflow.deployment.connector.base import extract_tar_stream
from streamflow.core.data import StreamWrapper
class MemReader(StreamWrapper):
    def __init__(self, data, chunk): super().__init__(None); self.b=io.BytesIO(data); self.chunk=chunk; self.eof_reads=0
    async def close(self): pass
    async def read(self, size=None):
        n = self.chunk if size is None else min(size, self.chunk)
        d=self.b.read(n)
        if not d:
            self.eof_reads+=1
            if self.eof_reads>100000: raise RuntimeError("SPIN: >100000 reads at EOF")
        return d
    async def write(self, data): raise NotImplementedError
def make(src):
    os.makedirs(src+"/d/sub"); open(src+"/d/a.txt","wb").write(b"A"*1500); open(src+"/d/sub/b.bin","wb").write(os.urandom(5000)); open(src+"/d/empty","wb").close()
    bio=io.BytesIO()
    with tarfile.open(fileobj=bio, mode="w", format=tarfile.GNU_FORMAT) as t: t.add(src+"/d", arcname="d")
    return bio.getvalue()
async def extract(data, chunk, dst):
    r=MemReader(data, chunk)
    async with aiotarstream.open(stream=r, mode="r", copybufsize=64) as tar:
        await extract_tar_stream(tar, "/x/d", dst, 64)
def tree(p):
    out={}
    for root,ds,fs in os.walk(p):
        for f in fs:
            fp=os.path.join(root,f); out[os.path.relpath(fp,p)]=os.path.getsize(fp)
    return out
tmp=tempfile.mkdtemp(); src=tmp+"/src"; os.makedirs(src); data=make(src)
print("archive bytes", len(data))
for chunk in (1, 7, 511, 512, 513, 4096):
    dst=tmp+f"/dst{chunk}"; os.makedirs(dst)
    try:
        asyncio.run(extract(data, chunk, dst)); print("chunk",chunk,"->",tree(dst))
    except Exception as e: print("chunk",chunk,"EXC",type(e).__name__,e)
# truncations
for cut,label in ((len(data)-10240+100,"inside EOA"),(512*3+700,"inside data of 1st file"),(512*2,"after dir hdr + 1st file hdr"),(512*5,"??boundary")):
    dst=tmp+f"/cut{cut}"; os.makedirs(dst)
    try:
        asyncio.run(extract(data[:cut], 512, dst)); print("cut",cut,label,"-> OK(no error)",tree(dst))
    except Exception as e: print("cut",cut,label,"EXC",type(e).__name__,str(e)[:80], tree(dst))
shutil.rmtree(tmp)
