import time, sys
sys.argv=['x']
exec(open('run.py').read().split("for seed in range(3):")[0])
import warnings; warnings.simplefilter("ignore")
t=time.time(); N=60; steps=0
for seed in range(N):
    loop = simloop.SimLoop(seed); asyncio.set_event_loop(loop)
    try:
        r = loop.run_until_complete(main(13)); steps+=loop.steps
        # drain
        try:
            while True: loop._run_once()
        except simloop.Deadlock: pass
    finally: loop.close()
dt=time.time()-t
print(f"{N/dt:.1f} runs/s, {steps/dt:.0f} steps/s")
