import sys, asyncio, os, logging, posixpath, shlex, subprocess, tempfile, uuid, random, warnings
sys.path.insert(0,'/verif/spikes'); sys.path.insert(0,'/repo')
warnings.simplefilter("ignore")
import simloop, simsqlite
import streamflow.persistence.sqlite as sq
sq.aiosqlite = simsqlite
import streamflow.core.utils as cu
async def run_in_subprocess(location, command, capture_output, timeout):
    await asyncio.get_event_loop().io("proc")
    p = subprocess.run(shlex.split(" ".join(command)), env=os.environ|location.environment, stdin=subprocess.DEVNULL,
        stdout=subprocess.PIPE if capture_output else subprocess.DEVNULL, stderr=subprocess.PIPE if capture_output else subprocess.DEVNULL)
    return (p.stdout.decode().strip(), p.returncode) if capture_output else None
cu.run_in_subprocess = run_in_subprocess
from streamflow.main import build_context
from streamflow.core import utils
from streamflow.core.workflow import Token, Status
from streamflow.workflow.step import ScatterStep, GatherStep
from streamflow.workflow.token import TerminationToken
from streamflow.workflow.executor import StreamFlowExecutor
from streamflow.log_handler import logger
logger.setLevel(logging.CRITICAL+1)
from tests.utils.deployment import get_deployment_config, get_location
from tests.utils.utils import inject_tokens
from tests.utils.workflow import RecoveryTranslator, create_workflow
from tests.test_recovery import _get_token_value

async def main(nfail, ftype, fstep, width):
    ctx = build_context({"failureManager":{"type":"default","config":{"max_retries":10,"retry_delay":0}},
        "database":{"type":"default","config":{"connection":":memory:"}},"path":os.getcwd()})
    dt = RecoveryTranslator.LOCAL_FS_VOLATILE
    cfg = await get_deployment_config(ctx, dt)
    await ctx.deployment_manager.deploy(cfg)
    workflow = next(iter(await create_workflow(ctx, num_port=0)))
    tr = RecoveryTranslator(workflow); tr.deployment_configs={cfg.name:cfg}
    loc = await get_location(ctx, dt)
    inp="test_in"; outn="test_out"
    inj = tr.get_base_injector_step([dt], inp, "/"+inp, workflow)
    tv = await _get_token_value(ctx, loc, "list", **{"list_length": width})
    await inject_tokens([Token(tv, recoverable=True)], inj.get_input_port(inp), ctx, save_input_token=False)
    step = tr.get_execute_pipeline(command=f"lambda x : ('copy', 'list', x['{inp}'].value)", deployment_names=[dt],
        input_ports={inp: inj.get_output_port(inp)}, outputs={outn:"list"}, step_name="/a/x", workflow=workflow)
    sname="/b/y"
    sc = workflow.create_step(cls=ScatterStep, name=f"{sname}-scatter")
    sc.add_input_port(outn, step.get_output_port(outn)); sc.add_output_port(outn, workflow.create_port())
    b = tr.get_execute_pipeline(command=f"lambda x : ('copy', 'list', x['{outn}'].value)", deployment_names=[dt],
        input_ports={outn: sc.get_output_port(outn)}, outputs={outn:"file"}, step_name=sname,
        failure_step=fstep, failure_tags={f"0.{i}": nfail for i in range(0,width,2)}, failure_type=ftype, workflow=workflow)
    g = workflow.create_step(cls=GatherStep, name=f"{sname}-gather", size_port=sc.get_size_port())
    g.add_input_port(outn, b.get_output_port(outn)); g.add_output_port(outn, workflow.create_port())
    workflow.output_ports["o"]=g.get_output_port(outn).name
    await workflow.save(ctx.database)
    try:
        out = await StreamFlowExecutor(workflow).run()
    finally:
        vers = {k:v.version for k,v in ctx.failure_manager._retry_requests.items()}
    await ctx.deployment_manager.undeploy_all(); await ctx.close()
    return [os.path.basename(x) for x in out["o"]], vers

import time
for seed in range(int(sys.argv[1]) if len(sys.argv)>1 else 4):
    loop = simloop.SimLoop(seed); asyncio.set_event_loop(loop)
    t=time.time()
    try:
        r = loop.run_until_complete(main(1, RecoveryTranslator.FAIL_STOP, RecoveryTranslator.EXECUTE, 4))
        print(seed, "OK", r, "steps", loop.steps, f"{time.time()-t:.2f}s")
    except simloop.Deadlock:
        print(seed, "DEADLOCK steps", loop.steps, [t.get_coro().__qualname__ for t in asyncio.all_tasks(loop)][:12])
    except Exception as e:
        print(seed, "EXC", type(e).__name__, str(e)[:200])
    finally:
        loop.close()
