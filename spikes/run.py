import sys, asyncio, os, logging, hashlib
sys.path.insert(0,'/verif/spikes'); sys.path.insert(0,'/repo')
import simloop, simsqlite
import streamflow.persistence.sqlite as sq
sq.aiosqlite = simsqlite
from streamflow.main import build_context
from streamflow.core.workflow import Workflow, Token, Status
from streamflow.workflow.step import ScatterStep, GatherStep, Transformer
from streamflow.workflow.token import ListToken, TerminationToken
from streamflow.workflow.executor import StreamFlowExecutor
from streamflow.log_handler import logger
logger.setLevel(logging.CRITICAL)

class SlowT(Transformer):
    async def transform(self, inputs):
        loop = asyncio.get_event_loop()
        tok = next(iter(inputs.values()))
        await loop.io("work", 50)
        return {next(iter(self.output_ports)): Token(tok.value*2, tag=tok.tag)}

async def main(n):
    ctx = build_context({"database":{"type":"default","config":{"connection":":memory:"}},"path":os.getcwd()})
    wf = Workflow(context=ctx, name="w", config={})
    pin = wf.create_port()
    sc = wf.create_step(ScatterStep, name="/s-scatter")
    sc.add_input_port("x", pin); sc.add_output_port("x", wf.create_port())
    tr = wf.create_step(SlowT, name="/t")
    tr.add_input_port("x", sc.get_output_port("x")); tr.add_output_port("x", wf.create_port())
    g = wf.create_step(GatherStep, name="/g", size_port=sc.get_size_port())
    g.add_input_port("x", tr.get_output_port("x")); g.add_output_port("x", wf.create_port())
    wf.output_ports["out"] = g.get_output_port("x").name
    await wf.save(ctx.database)
    lt = ListToken([Token(i) for i in range(n)], tag="0")
    await lt.save(ctx.database, pin.persistent_id)
    pin.put(lt); pin.put(TerminationToken())
    out = await StreamFlowExecutor(wf).run()
    await ctx.close()
    return out

for seed in range(3):
    loop = simloop.SimLoop(seed)
    asyncio.set_event_loop(loop)
    try:
        r = loop.run_until_complete(main(13))
        print(seed, r, "steps", loop.steps, "vtime", loop.time())
    finally:
        loop.close()
