cwlVersion: v1.2
class: Workflow
requirements:
  ScatterFeatureRequirement: {}
  InlineJavascriptRequirement: {}
  StepInputExpressionRequirement: {}
inputs:
  xs: int[]
  s: string
outputs:
  out:
    type: string[]
    outputSource: say/o
  tot:
    type: int
    outputSource: sum/r
steps:
  say:
    scatter: x
    in:
      x: xs
      msg:
        source: s
        valueFrom: $(self + "!")
    out: [o]
    run:
      class: CommandLineTool
      baseCommand: echo
      inputs:
        x: {type: int, inputBinding: {position: 1, prefix: -n}}
        msg: {type: string, inputBinding: {position: 2}}
      stdout: o.txt
      outputs:
        o:
          type: string
          outputBinding:
            glob: o.txt
            loadContents: true
            outputEval: $(self[0].contents)
  sum:
    in: {xs: xs}
    out: [r]
    run:
      class: ExpressionTool
      inputs: {xs: "int[]"}
      outputs: {r: int}
      expression: "${var t=0; for (var i=0;i<inputs.xs.length;i++) t+=inputs.xs[i]; return {r: t};}"
