import sys, asyncio, os, subprocess, select, logging, warnings, json
sys.path.insert(0,'/verif/spikes'); sys.path.insert(0,'/repo')
warnings.simplefilter("ignore")
import simloop
from streamflow.log_handler import logger
logger.setLevel(logging.CRITICAL+1)
from streamflow.deployment.connector.base import BaseConnector
from streamflow.core.deployment import ExecutionLocation
import streamflow.core.utils as cu

class FakeStdin:
    def __init__(self, p): self.p=p
    def write(self, data): self.p.popen.stdin.write(data); self.p.popen.stdin.flush()
    async def drain(self): await asyncio.get_event_loop().io("pipe")
    def close(self): 
        try: self.p.popen.stdin.close()
        except Exception: pass
    async def wait_closed(self): pass
class FakeStdout:
    def __init__(self, p): self.p=p
    async def read(self, n=-1):
        loop=asyncio.get_event_loop()
        d = self.p.next_delay(); 
        if d: await asyncio.sleep(d)
        else: await loop.io("pipe")
        fd=self.p.popen.stdout.fileno()
        r,_,_=select.select([fd],[],[],5.0)
        if not r: return b""   # harness: real shell silent for 5s
        return os.read(fd, n if n>0 else 65536)
class FakeProc:
    def __init__(self, argv, delays):
        self.popen=subprocess.Popen(argv, stdin=subprocess.PIPE, stdout=subprocess.PIPE, stderr=subprocess.DEVNULL)
        self.stdin=FakeStdin(self); self.stdout=FakeStdout(self); self.delays=delays
    def next_delay(self): return self.delays.pop(0) if self.delays else 0
    @property
    def returncode(self): return self.popen.poll()
    async def wait(self): return self.popen.wait()
    def kill(self): self.popen.kill()
DELAYS=[]
async def fake_cspe(*argv, **kw): return FakeProc(list(argv), DELAYS)
asyncio.create_subprocess_exec = fake_cspe
async def fake_run_in_subprocess(location, command, capture_output, timeout):
    import shlex
    p=subprocess.run(shlex.split(" ".join(command)), stdout=subprocess.PIPE, stderr=subprocess.PIPE)
    return (p.stdout.decode().strip(), p.returncode) if capture_output else None
cu.run_in_subprocess = fake_run_in_subprocess

class C(BaseConnector):
    async def deploy(self, e): pass
    async def get_available_locations(self, service=None): return {}
    @classmethod
    def get_schema(cls): return "{}"
async def main():
    c=C("x","/",65536); loc=ExecutionLocation("l","x")
    cnt="/verif/spikes/cnt"; open(cnt,"w").close()
    out=[]
    out.append(await c.run(loc, ["echo","hello"], capture_output=True))
    out.append(await c.run(loc, ["printf","%s","$V"], environment={"V":"a b$HOME`id`\"'"}, capture_output=True))
    out.append(await c.run(loc, ["sh","-c","'exit 7'"], capture_output=True))
    # timeout: the output of the next command is delayed by 10 virtual seconds; timeout 3
    DELAYS.append(10)
    out.append(await c.run(loc, [f"echo x >> {cnt}; echo slow-output"], capture_output=True, timeout=3))
    out.append(await c.run(loc, ["echo","after-timeout"], capture_output=True))
    out.append(("count", open(cnt).read().count("x")))
    await c.undeploy(False)
    return out
loop=simloop.SimLoop(1); asyncio.set_event_loop(loop)
for o in loop.run_until_complete(main()): print(repr(o))
print("vtime", loop.time())
