import sys, asyncio, os, logging, warnings
sys.path.insert(0,'/verif/spikes'); sys.path.insert(0,'/repo')
warnings.simplefilter("ignore")
import simloop, simsqlite
import streamflow.persistence.sqlite as sq
sq.aiosqlite = simsqlite
from streamflow.main import build_context
from streamflow.core.workflow import Workflow, Port, Step
from streamflow.workflow.step import ScatterStep
async def main(d_get, d_upd):
    ctx=build_context({"database":{"type":"default","config":{"connection":":memory:"}},"path":os.getcwd()})
    db=ctx.database
    wid=await db.add_workflow("w",{}, 0, Workflow)
    sid=await db.add_step("s", wid, 0, ScatterStep, {"a":{"b":[1]}})
    # nested mutation leak
    r1=await db.get_step(sid); r1["params"]["a"]["b"].append(99); r1["name"]="zzz"
    r2=await db.get_step(sid)
    print("after caller mutation:", r2["name"], r2["params"])
    db.step_cache.clear()
    # race
    async def getter():
        await asyncio.sleep(d_get); return (await db.get_step(sid))["status"]
    async def upd():
        await asyncio.sleep(d_upd); await db.update_step(sid, {"status": 4})
    g=asyncio.create_task(getter()); u=asyncio.create_task(upd())
    gv=await g; await u
    later=(await db.get_step(sid))["status"]
    print(f"d_get={d_get} d_upd={d_upd}: overlapping get saw {gv}; later get (after update returned) sees {later}")
    await ctx.close()
for seed in range(6):
    loop=simloop.SimLoop(seed); asyncio.set_event_loop(loop)
    loop.run_until_complete(main(0.0, 0.001)); loop.close()
