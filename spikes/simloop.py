import asyncio, heapq, random, sqlite3, sys, time as _time
from asyncio import base_events, events

class Deadlock(Exception): pass

class SimLoop(base_events.BaseEventLoop):
    def __init__(self, seed):
        super().__init__()
        self._now = 0.0
        self.rng = random.Random(seed)
        self.steps = 0
        self._task_seq = 0
        self.set_task_factory(self._factory)
        self.trace = []
    def _factory(self, loop, coro, **kw):
        self._task_seq += 1
        SimTask._next = self._task_seq
        t = SimTask(coro, loop=loop, **kw)
        return t
    def time(self): return self._now
    def _process_events(self, event_list): pass
    def _write_to_self(self): pass
    def _run_once(self):
        # timers -> ready
        sched = self._scheduled
        while sched and sched[0]._cancelled:
            h = heapq.heappop(sched); h._scheduled = False
        if not self._ready:
            if not sched:
                raise Deadlock()
            # jump clock
            self._now = max(self._now, sched[0]._when)
        while sched and sched[0]._when <= self._now:
            h = heapq.heappop(sched); h._scheduled = False
            self._ready.append(h)
        n = len(self._ready)
        for _ in range(n):
            h = self._ready.popleft()
            if h._cancelled: continue
            self.steps += 1
            h._run()
    def io(self, kind="io", maxd=5):
        fut = self.create_future()
        d = self.rng.randrange(maxd) * 0.001
        self.call_later(d, lambda: fut.done() or fut.set_result(None))
        return fut
    def run_in_executor(self, executor, func, *args):
        fut = self.create_future()
        try: fut.set_result(func(*args))
        except BaseException as e: fut.set_exception(e)
        return fut

class SimTask(asyncio.tasks._PyTask):
    _next = 0
    def __init__(self, coro, **kw):
        self._sim_id = SimTask._next
        super().__init__(coro, **kw)
    def __hash__(self): return self._sim_id
    def __eq__(self, o): return self is o
