import sys, asyncio
sys.path.insert(0,'/repo')
from streamflow.deployment.filter.matching import MatchingBindingFilter
from streamflow.core.deployment import Target, DeploymentConfig
from streamflow.core.workflow import Job, Token
names=["a","b","c","d"]
bad=0
for trial in range(200):
    junk=[object() for _ in range(trial%7)]
    targets=[Target(DeploymentConfig(n,"local",{})) for n in names]
    f=MatchingBindingFilter("f",[{"target":n,"job":[{"port":"x","match":"1"}]} for n in names])
    job=Job("/s/0",0,{"x":Token("1")},None,None,None)
    out=asyncio.run(f.get_targets(job,targets))
    if [t.deployment.name for t in out]!=names: bad+=1
print("order differs from declared in",bad,"of 200 trials")
