import sqlite3, asyncio
Row = sqlite3.Row
class _Result:
    def __init__(self, coro): self._coro = coro; self._obj=None
    def __await__(self): return self._coro.__await__()
    async def __aenter__(self):
        self._obj = await self._coro; return self._obj
    async def __aexit__(self, *a):
        await self._obj.close()
class Cursor:
    def __init__(self, conn, cur): self.conn=conn; self.cur=cur
    async def execute(self, sql, params=()):
        await self.conn._rt(); self.cur.execute(sql, params); return self
    async def executescript(self, s):
        await self.conn._rt(); self.cur.executescript(s); return self
    async def fetchone(self):
        await self.conn._rt(); return self.cur.fetchone()
    async def fetchall(self):
        await self.conn._rt(); return self.cur.fetchall()
    async def close(self): pass
    @property
    def lastrowid(self): return self.cur.lastrowid
    def __aiter__(self):
        async def gen():
            for r in self.cur.fetchall(): yield r
        return gen()
    async def __aenter__(self): return self
    async def __aexit__(self,*a): pass
class Connection:
    def __init__(self, db, loop): self.db=sqlite3.connect(db); self.loop=loop
    _tail=None
    async def _rt(self):
        loop=asyncio.get_event_loop()
        prev=self._tail; fut=loop.create_future(); self._tail=fut
        if prev is not None and not prev.done(): await prev
        await loop.io("db")
        loop.call_soon(lambda: fut.done() or fut.set_result(None))
    @property
    def row_factory(self): return self.db.row_factory
    @row_factory.setter
    def row_factory(self,v): self.db.row_factory=v
    def cursor(self):
        async def c(): 
            await self._rt(); return Cursor(self, self.db.cursor())
        return _Result(c())
    def execute(self, sql, params=()):
        async def c():
            await self._rt(); cur=self.db.cursor(); cur.execute(sql, params); return Cursor(self,cur)
        return _Result(c())
    def executemany(self, sql, params):
        async def c():
            await self._rt(); cur=self.db.cursor(); cur.executemany(sql, params); return Cursor(self,cur)
        return _Result(c())
    async def commit(self): await self._rt(); self.db.commit()
    async def close(self): self.db.close()
def connect(database, timeout=None, **kw):
    async def c():
        return Connection(database, None)
    return _Result2(c())
class _Result2:
    def __init__(self,coro): self._coro=coro
    def __await__(self): return self._coro.__await__()
