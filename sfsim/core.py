"""Sim: one simulated run = one loop + one tape + delay profile + probes + event log."""
from __future__ import annotations

import asyncio
import os
import shutil
import signal
import sys
import tempfile
import traceback
import uuid as _uuid
import zlib
from collections import Counter

from .loop import Quiescent, SimLoop, SimTask, StepLimit
from .tape import Tape

CURRENT: "Sim | None" = None
REPO = os.environ.get("SFSIM_REPO", "/repo")
# the tree under test must win over any installed copy, whoever imports `streamflow` first
if REPO not in sys.path[:1]:
    sys.path.insert(0, REPO)


class Violation(Exception):
    """A property violation found on a legal schedule.

    klass      coarse class used by the shrinker ("same violation class persists")
    signature  property-specific identity used for known-finding matching
    """

    def __init__(self, klass: str, message: str, signature: str | None = None, details=None):
        super().__init__(f"{klass}: {message}")
        self.klass = klass
        self.message = message
        self.signature = signature or klass
        self.details = details


class HarnessError(Exception):
    pass


class WallTimeout(BaseException):
    pass


def _alarm(signum, frame):
    raise WallTimeout()


PROFILES = ("zero", "uniform", "bimodal", "kind_bias", "entity_bias")


class Sim:
    def __init__(self, tape: Tape, prop: str = "", max_steps: int = 400_000,
                 max_vtime: float = 1e7, wall_cap: float = 60.0, profile: int | None = None):
        from . import seams

        if seams._installed:
            seams.reset_cachebox_state()
        self.tape = tape
        self.prop = prop
        self.loop = SimLoop(max_steps=max_steps, max_vtime=max_vtime)
        self.loop.delay_fn = self.delay
        self.wall_cap = wall_cap
        self.probes: Counter = Counter()
        self.faults: Counter = Counter()
        self.events: list = []
        self.errors: list = []
        self.uuid_counter = 0
        self.id_counter = 0
        self.ids: dict = {}
        self._scratch = None
        self.info: dict = {}
        # per-run identity order of tasks
        SimTask._sim_mult = (1, 3, 5, 7, 11, 0x9E3779B1, 0x85EBCA6B, 0x27D4EB2F)[tape.draw(8, "task.hash.mult")]
        SimTask._sim_salt = tape.draw(64, "task.hash.salt")
        from . import seams as _seams

        _seams.reset_identity_hashes(SimTask._sim_mult, SimTask._sim_salt)
        self.profile = tape.draw(len(PROFILES), "delay.profile") if profile is None else profile
        self.kind_scale: dict = {}
        self.entity_slow: dict = {}
        self.nondefault_delays = 0

    # ---- choices ----------------------------------------------------------------------
    def draw(self, n, label=""):
        return self.tape.draw(n, label)

    def delay(self, kind: str, entity=None) -> float:
        p = self.profile
        if p == 0:
            return 0.0
        t = self.tape
        if p == 1:
            d = t.draw(8, "d")
        elif p == 2:
            v = t.draw(16, "d")
            if v < 12:
                d = 0
            elif v < 15:
                d = v - 11
            else:
                d = 1000 * (1 + t.draw(1000, "stall"))
                self.probes["delay.stall"] += 1
        elif p == 3:
            sc = self.kind_scale.get(kind)
            if sc is None:
                sc = self.kind_scale[kind] = (0, 1, 10, 100)[t.draw(4, f"kscale:{kind}")]
            d = t.draw(4, "d") * sc
        else:
            key = (kind, entity)
            sl = self.entity_slow.get(key)
            if sl is None:
                sl = self.entity_slow[key] = (1, 1, 1, 200)[t.draw(4, f"eslow:{kind}:{entity}")]
            d = t.draw(4, "d") * sl
        if d == 0:
            return 0.0
        self.nondefault_delays += 1
        return d * 1e-3 + t.draw(1000, "j") * 1e-9

    def io(self, kind: str, entity=None, extra: float = 0.0):
        """Awaitable that completes after a simulated duration (always yields)."""
        loop = self.loop
        fut = loop.create_future()
        d = self.delay(kind, entity) + extra
        if d <= 0:
            loop.call_soon(_resolve, fut)
        else:
            loop.call_later(d, _resolve, fut)
        return fut

    # ---- logging ----------------------------------------------------------------------
    def log(self, kind: str, *fields):
        self.events.append((self.loop.steps, kind) + fields)

    def probe(self, name: str, n: int = 1):
        self.probes[name] += n

    def fault(self, kind: str, n: int = 1):
        self.faults[kind] += n

    def sim_id(self, obj) -> int:
        """Simulator-assigned identity (replaces id())."""
        k = id(obj)
        v = self.ids.get(k)
        if v is None:
            self.id_counter += 1
            v = self.ids[k] = (self.id_counter, obj)
        return v[0]

    @property
    def digest(self) -> int:
        d = self.loop.digest
        return zlib.crc32(repr(self.tape.values).encode(), d)

    # ---- scratch ----------------------------------------------------------------------
    @property
    def scratch(self) -> str:
        if self._scratch is None:
            root = os.path.join(
                os.environ.get("SFSIM_TMP") or tempfile.gettempdir(), f"sfsim-{os.getpid():07d}"  # fixed width: path lengths reach byte streams, hence read counts and digests
            )
            os.makedirs(root, exist_ok=True)
            self._scratch = tempfile.mkdtemp(prefix="run-", dir=root)
        return self._scratch

    # ---- running ----------------------------------------------------------------------
    def run(self, coro):
        """Run ``coro`` to completion on the simulated loop.

        Returns its result; raises Quiescent (deadlock), StepLimit, WallTimeout, or whatever
        the coroutine raises. The loop stays open for post-mortem / drain; call close().
        """
        global CURRENT
        CURRENT = self
        asyncio.set_event_loop(self.loop)
        old = signal.signal(signal.SIGALRM, _alarm)
        signal.setitimer(signal.ITIMER_REAL, self.wall_cap)
        try:
            return self.loop.run_until_complete(coro)
        finally:
            signal.setitimer(signal.ITIMER_REAL, 0)
            signal.signal(signal.SIGALRM, old)

    def drain(self) -> bool:
        global CURRENT
        CURRENT = self
        old = signal.signal(signal.SIGALRM, _alarm)
        signal.setitimer(signal.ITIMER_REAL, self.wall_cap)
        try:
            return self.loop.drain()
        finally:
            signal.setitimer(signal.ITIMER_REAL, 0)
            signal.signal(signal.SIGALRM, old)

    def close(self):
        global CURRENT
        try:
            if not self.loop.is_closed():
                self.loop.shutdown()
        finally:
            asyncio.set_event_loop(None)
            CURRENT = None
            self.ids.clear()
            if self.info.get("real_children"):
                from . import simproc

                simproc.cleanup(self)
            if self._scratch is not None:
                shutil.rmtree(self._scratch, ignore_errors=True)
                self._scratch = None

    def deadlock_report(self):
        return self.loop.describe_pending()


def _resolve(fut):
    if not fut.done():
        fut.set_result(None)


def repo_frame_of(tb) -> str | None:
    """Innermost frame of a traceback that lies in the repo's streamflow package."""
    found = None
    for fs in traceback.extract_tb(tb):
        if "/streamflow/" in fs.filename and "/verif/" not in fs.filename:
            found = f"{fs.filename.rsplit('/streamflow/', 1)[-1]}:{fs.name}"
    return found


def sim_uuid4():
    s = CURRENT
    if s is None:
        return _REAL_UUID4()
    s.uuid_counter += 1
    return _uuid.UUID(int=(0x5F51 << 112) | s.uuid_counter, version=4)


_REAL_UUID4 = _uuid.uuid4
