"""Simulated subprocesses (DESIGN.md §1.2 item 3): `asyncio.create_subprocess_exec` behind a seam.

The event loop of the simulator has no child watcher and no pipe transports, and a real child's
timing would be a source of nondeterminism the simulator does not own.  So every process the code
under test spawns is run *for real* (real `sh`, `tar`, `cat`, ...) but synchronously, at a
simulator-chosen instant, and what the code under test sees of it - when output bytes become
readable, how they are cut into reads, when the process "finishes", whether the pipe breaks - is
decided by the tape in virtual time:

* reader processes (stdin=DEVNULL, stdout=PIPE): run to completion when spawned, stdout is then
  served through a `SimPipeReader` (tape-chosen chunking and latency);
* writer processes (stdin=PIPE): bytes are collected by a `SimPipeWriter`; the real process runs
  with them as its input when stdin is closed (a pipe is a byte stream: the process cannot observe
  the write boundaries); an injected fault makes the process die after a tape-chosen number of
  bytes, later writes raise BrokenPipeError;
* interactive processes (stdin=PIPE and stdout=PIPE: the persistent shell): a real child with real
  pipes; after each write the simulator collects, synchronously, everything the child prints up
  to the end marker of the BaseShell protocol, then releases those bytes to the reader in
  virtual time (command duration, chunk cuts - inside the marker or a multi-byte character too).

A location of the simulated remote is a private directory mounted (bind mount in a private mount
namespace) on one fixed path, so that the same absolute path names different files on different
locations, exactly like on real remote hosts.
"""
from __future__ import annotations

import asyncio
import os
import re
import select
import signal
import subprocess
import time

from . import core

EXEC_TAG = "sfsim-exec"      # argv[0] marker: ["sfsim-exec", <location root or "-">, "--", real argv...]
REAL_WAIT_S = 30.0           # real-time guard for a child that never prints its end marker

_NS_OK = None


def ns_available() -> bool:
    """Can we create a private mount namespace with a bind mount? (probed once)"""
    global _NS_OK
    if _NS_OK is None:
        import tempfile

        d = tempfile.mkdtemp(prefix="sfsim-nsprobe-")
        try:
            os.makedirs(os.path.join(d, "a"))
            os.makedirs(os.path.join(d, "m"))
            open(os.path.join(d, "a", "probe"), "w").close()
            p = subprocess.run(_wrap(os.path.join(d, "a"), os.path.join(d, "m"), ["test", "-e", os.path.join(d, "m", "probe")]),
                               capture_output=True)
            _NS_OK = p.returncode == 0
        except OSError:
            _NS_OK = False
        finally:
            import shutil

            shutil.rmtree(d, ignore_errors=True)
    return _NS_OK


def _wrap(root, mnt, argv):
    return ["unshare", "-rm", "sh", "-c", 'mount --bind "$1" "$2" && shift 2 && exec "$@"', "sfsim", root, mnt, *argv]


def real_argv(argv, sim):
    """Strip the location marker and wrap the command into the location's mount namespace."""
    argv = [str(a) for a in argv]
    if argv and argv[0] == EXEC_TAG:
        root = argv[1]
        rest = argv[3:]
        mnt = sim.info.get("remote_mnt")
        if root != "-" and mnt and sim.info.get("remote_ns"):
            return _wrap(root, mnt, rest)
        return rest
    return argv


class SimPipeReader:
    """What the code under test sees of a child's stdout: bytes become readable at virtual instants."""

    def __init__(self, sim, name):
        self.sim = sim
        self.name = name
        self.segments = []   # [avail_time, bytearray]
        self.eof_at = None
        self.reads = 0
        self._wake = None
        self.delivered = 0

    # -- producer side ---------------------------------------------------------------------
    def feed(self, data: bytes, at: float):
        if data:
            self.segments.append([at, bytearray(data)])
        self._notify()

    def feed_eof(self, at: float):
        self.eof_at = at
        self._notify()

    def _notify(self):
        if self._wake is not None and not self._wake.done():
            self._wake.set_result(None)

    # -- consumer side (asyncio.StreamReader subset) ---------------------------------------------
    async def read(self, n=-1):
        loop = self.sim.loop
        self.reads += 1
        while True:
            now = loop.time()
            if self.segments:
                at, buf = self.segments[0]
                if at <= now:
                    want = len(buf) if n is None or n < 0 else n
                    cut = self.sim.info.get("pipe_cut")
                    k = max(1, min(want, len(buf), cut(self, len(buf)) if cut else len(buf)))
                    out = bytes(buf[:k])
                    del buf[:k]
                    if not buf:
                        self.segments.pop(0)
                    self.delivered += len(out)
                    await self.sim.io("pipe.read", self.name)
                    return out
                await asyncio.sleep(at - now)
                continue
            if self.eof_at is not None:
                if self.eof_at <= now:
                    return b""
                await asyncio.sleep(self.eof_at - now)
                continue
            self._wake = loop.create_future()
            try:
                await self._wake
            finally:
                self._wake = None

    async def readline(self):
        out = b""
        while not out.endswith(b"\n"):
            c = await self.read(1)
            if not c:
                break
            out += c
        return out

    def at_eof(self):
        return not self.segments and self.eof_at is not None and self.eof_at <= self.sim.loop.time()


class SimPipeWriter:
    """stdin of a child: asyncio.StreamWriter subset (write, drain, close, wait_closed, is_closing)."""

    def __init__(self, proc):
        self.proc = proc
        self._closing = False

    def write(self, data):
        self.proc._stdin_write(bytes(data))

    def writelines(self, lines):
        for ln in lines:
            self.write(ln)

    async def drain(self):
        await self.proc.sim.io("pipe.write", self.proc.name)
        self.proc._stdin_drain()

    def close(self):
        if not self._closing:
            self._closing = True
            self.proc._stdin_close()

    def is_closing(self):
        return self._closing

    async def wait_closed(self):
        await self.proc.sim.io("pipe.close", self.proc.name)

    def can_write_eof(self):
        return True

    def write_eof(self):
        self.close()


_MARK = re.compile(rb'echo "(SF_CMD_END_[A-Za-z0-9_\-]+):\$\?"')


class SimProcess:
    _next = 0

    def __init__(self, sim, argv, stdin, stdout, stderr, env):
        SimProcess._next += 1
        self.sim = sim
        self.argv = real_argv(argv, sim)
        self.orig_argv = [str(a) for a in argv]
        self.pid = 100000 + len(sim.info.setdefault("procs", []))
        self.name = f"p{self.pid - 100000}"
        sim.info["procs"].append(self)
        self.returncode = None
        self._exit_at = None
        self._exit_code = None
        self._exit_waiters = []
        self.env = env
        self.stdin = self.stdout = self.stderr = None
        self._in = bytearray()
        self._real = None
        self._broken = False
        self._die_after = None
        has_in = stdin == asyncio.subprocess.PIPE
        has_out = stdout == asyncio.subprocess.PIPE
        self._stderr_pipe = stderr == asyncio.subprocess.PIPE
        self._merge_err = stderr == asyncio.subprocess.STDOUT
        self.kind = "shell" if has_in and has_out else ("writer" if has_in else "reader")
        model = sim.info.get("proc_model")
        self.plan = model(self) if model else {}
        if has_in and has_out:
            self.stdin = SimPipeWriter(self)
            self.stdout = SimPipeReader(sim, self.name)
            self._spawn_interactive()
        elif has_in:
            self.stdin = SimPipeWriter(self)
            self._die_after = self.plan.get("die_after")
        else:
            if has_out:
                self.stdout = SimPipeReader(sim, self.name)
            if self._stderr_pipe:
                self.stderr = SimPipeReader(sim, self.name + ".err")
            self._run_reader()
        sim.probe(f"proc.{self.kind}")

    # ---- reader ----------------------------------------------------------------------------
    def _run_reader(self):
        p = subprocess.run(self.argv, stdin=subprocess.DEVNULL, stdout=subprocess.PIPE if self.stdout else subprocess.DEVNULL,
                           stderr=subprocess.PIPE if self._stderr_pipe else (subprocess.STDOUT if self._merge_err else subprocess.DEVNULL),
                           env=self.env)
        now = self.sim.loop.time()
        start = now + self.plan.get("start_delay", 0.0)
        data = p.stdout or b""
        cut = self.plan.get("truncate_at")
        if cut is not None and cut < len(data):
            data = data[:cut]
            self.sim.fault("reader_stream_truncated")
        dur = self.plan.get("duration", 0.0)
        if self.stdout:
            # bytes trickle in over the duration of the process
            nseg = max(1, min(len(data), self.plan.get("segments", 1)))
            step = max(1, -(-len(data) // nseg))
            for i in range(0, len(data), step):
                self.stdout.feed(data[i:i + step], start + dur * (i / max(1, len(data))))
            self.stdout.feed_eof(start + dur)
        if self.stderr is not None:
            self.stderr.feed(p.stderr or b"", start)
            self.stderr.feed_eof(start + dur)
        self._finish(p.returncode if cut is None else (p.returncode or 141), start + dur)

    # ---- writer ----------------------------------------------------------------------------
    def _stdin_write(self, data):
        if self.kind == "shell":
            self._shell_write(data)
            return
        if self._broken:
            raise BrokenPipeError("sim: child is gone")
        self._in += data
        if self._die_after is not None and len(self._in) >= self._die_after:
            del self._in[self._die_after:]
            self._broken = True
            self.sim.fault("writer_process_died")
            self._run_writer(died=True)

    def _stdin_drain(self):
        if self._broken and self.kind == "writer":
            raise BrokenPipeError("sim: child is gone")

    def _stdin_close(self):
        if self.kind == "shell":
            self._shell_close_stdin()
        elif self.returncode is None and self._exit_at is None:
            self._run_writer(died=False)

    def _run_writer(self, died):
        p = subprocess.run(self.argv, input=bytes(self._in), stdout=subprocess.DEVNULL, stderr=subprocess.DEVNULL, env=self.env)
        self.sim.probe("proc.writer.bytes", len(self._in))
        self._finish(p.returncode if not died else (p.returncode or 137), self.sim.loop.time() + self.plan.get("duration", 0.0))

    # ---- interactive shell -------------------------------------------------------------------------
    def _spawn_interactive(self):
        self._real = subprocess.Popen(self.argv, stdin=subprocess.PIPE, stdout=subprocess.PIPE,
                                      stderr=subprocess.DEVNULL, env=self.env, bufsize=0, start_new_session=True)
        self.sim.info.setdefault("real_children", []).append(self._real)

    def _shell_write(self, data):
        if self._real is None or self._real.poll() is not None:
            raise BrokenPipeError("sim: shell is gone")
        kill = self.plan.get("shell_dies_at_command")
        n_cmd = self.sim.info.get("shell_commands", 0)
        self.sim.info["shell_commands"] = n_cmd + 1
        if kill is not None and n_cmd == kill:
            self.sim.fault("shell_process_died")
            self._real.kill()
            self._real.wait()
            self.stdout.feed_eof(self.sim.loop.time())
            self._finish(-9, self.sim.loop.time())
            raise BrokenPipeError("sim: shell was killed")
        try:
            self._real.stdin.write(data)
        except (BrokenPipeError, OSError):
            self._reap()
            raise BrokenPipeError("sim: shell is gone")
        m = None
        for m in _MARK.finditer(data):
            pass
        if m is None:
            if data.strip() in (b"exit", b"exit 0"):
                self._reap(wait=True)
            return
        marker = m.group(1) + b":"
        out = bytearray()
        fd = self._real.stdout.fileno()
        deadline = time.monotonic() + REAL_WAIT_S
        done = False
        while not done:
            r, _, _ = select.select([fd], [], [], max(0.0, deadline - time.monotonic()))
            if not r:
                raise core.HarnessError(f"real shell did not print the end marker within {REAL_WAIT_S}s for {data[:200]!r}")
            chunk = os.read(fd, 1 << 16)
            if not chunk:
                break
            out += chunk
            i = out.rfind(marker)
            if i >= 0 and out.find(b"\n", i) >= 0:
                done = True
        cmd = self.sim.info.get("shell_cmd_model")
        plan = cmd(self, data, bytes(out)) if cmd else {}
        now = self.sim.loop.time()
        dur = plan.get("duration", 0.0)
        body_end = out.rfind(marker) if done else len(out)
        early = plan.get("early_fraction", 0.0)   # part of the output appears before the command ends
        k = int(body_end * early)
        if k:
            self.stdout.feed(bytes(out[:k]), now + dur * 0.5)
        self.stdout.feed(bytes(out[k:]), now + dur)
        self.sim.probe("shell.command")
        if not done:
            self._reap()

    def _shell_close_stdin(self):
        if self._real is not None and self._real.poll() is None:
            try:
                self._real.stdin.close()
            except OSError:
                pass
            self._reap(wait=True)

    def _reap(self, wait=False):
        if self._real is None:
            return
        try:
            rc = self._real.wait(timeout=REAL_WAIT_S if wait else 5.0)
        except subprocess.TimeoutExpired:
            self._real.kill()
            rc = self._real.wait()
        # whatever it still printed
        try:
            rest = self._real.stdout.read() or b""
        except (OSError, ValueError):
            rest = b""
        now = self.sim.loop.time()
        if rest:
            self.stdout.feed(rest, now)
        self.stdout.feed_eof(now)
        if self._exit_at is None and self.returncode is None:
            self._finish(rc, now)

    # ---- process API ----------------------------------------------------------------------------
    def _finish(self, code, at):
        self._exit_code = code
        self._exit_at = at
        if at <= self.sim.loop.time():
            self.returncode = code

    async def wait(self):
        n = 0
        while self._exit_at is None:
            # a process only exits in reaction to something the code under test does (closing its
            # stdin, `exit`): nothing to wait for in real time, poll in virtual time
            if self._real is not None and self._real.poll() is not None:
                self._reap()
                break
            n += 1
            if n > 2000:
                raise core.HarnessError(f"wait() on process {self.orig_argv[:4]} that never exits")
            await asyncio.sleep(1.0)
        now = self.sim.loop.time()
        if self._exit_at > now:
            await asyncio.sleep(self._exit_at - now)
        self.returncode = self._exit_code
        return self.returncode

    async def communicate(self, input=None):
        if input is not None and self.stdin is not None:
            self.stdin.write(input)
            await self.stdin.drain()
        if self.stdin is not None:
            self.stdin.close()
        out = err = None
        if self.stdout is not None:
            buf = bytearray()
            while chunk := await self.stdout.read(-1):
                buf += chunk
            out = bytes(buf)
        if self.stderr is not None:
            buf = bytearray()
            while chunk := await self.stderr.read(-1):
                buf += chunk
            err = bytes(buf)
        await self.wait()
        return out, err

    def send_signal(self, sig):
        if self._real is not None and self._real.poll() is None:
            self._real.send_signal(sig)
            self._reap(wait=True)

    def kill(self):
        self.send_signal(signal.SIGKILL)
        if self._exit_at is None:
            self._finish(-9, self.sim.loop.time())

    def terminate(self):
        self.send_signal(signal.SIGTERM)
        if self._exit_at is None:
            self._finish(-15, self.sim.loop.time())


async def sim_create_subprocess_exec(program, *args, stdin=None, stdout=None, stderr=None, env=None, **kw):
    sim = core.CURRENT
    if sim is None:
        raise core.HarnessError("create_subprocess_exec outside a simulation")
    await sim.io("proc.spawn", str(program))
    return SimProcess(sim, [program, *args], stdin, stdout, stderr, env)


def cleanup(sim):
    for p in sim.info.get("real_children", []):
        if p.poll() is None:
            try:
                os.killpg(p.pid, signal.SIGKILL)
            except (ProcessLookupError, PermissionError):
                p.kill()
            p.wait()
        for f in (p.stdin, p.stdout):
            try:
                if f is not None:
                    f.close()
            except OSError:
                pass
