"""Self-tests (DESIGN.md §1.7): determinism of runs, import check, mutant sensitivity."""
from __future__ import annotations

import json
import os
import subprocess
import sys

from . import runner
from .tape import derive_seed

ALL = None


def claimed_ids():
    m = json.load(open(os.path.join(runner.VERIF, "MANIFEST.json")))
    return [c["property_id"] for c in m["checks"]]


def _digests(pid, base, n, order=1):
    mod = runner.load_prop(pid)
    cases = []
    if hasattr(mod, "cases"):
        cases = list(mod.cases("quick"))[: n // 2]
    cases += [{} for _ in range(n - len(cases))]
    idx = list(enumerate(cases))
    if order < 0:
        idx.reverse()
    out = {}
    for i, params in idx:
        o = runner.run_case(mod, derive_seed(base, pid, i), params)
        out[i] = (o["status"], o.get("klass"), o["digest"], o["steps"], len(o["tape"]))
    return out


def main(a):
    if a.selftest == "import":
        for pid in claimed_ids():
            runner.load_prop(pid)
        print("import ok:", ",".join(claimed_ids()))
        return 0
    if a.selftest == "determinism":
        ids = [a.prop.upper()] if a.prop else claimed_ids()
        base = a.seed if a.seed is not None else 7
        if os.environ.get("SFSIM_DET_CHILD"):
            res = {pid: _digests(pid, base, a.n, int(os.environ["SFSIM_DET_CHILD"])) for pid in ids}
            print("DIGESTS " + json.dumps(res))
            return 0
        bad = 0
        for pid in ids:
            ref = _digests(pid, base, a.n)
            again = _digests(pid, base, a.n)  # same process, second time
            variants = {"same-process-twice": again}
            for label, env in (
                ("fresh-interpreter", {"PYTHONHASHSEED": "0", "SFSIM_DET_CHILD": "1"}),
                ("hashseed-1", {"PYTHONHASHSEED": "1", "SFSIM_DET_CHILD": "1"}),
                ("hashseed-77-reversed", {"PYTHONHASHSEED": "77", "SFSIM_DET_CHILD": "-1"}),
            ):
                p = subprocess.run(
                    [os.path.join(runner.VERIF, "check"), pid, "--selftest", "determinism",
                     "--n", str(a.n), "--seed", str(base)],
                    env=os.environ | env, capture_output=True, text=True,
                )
                line = [ln for ln in p.stdout.splitlines() if ln.startswith("DIGESTS ")]
                if not line:
                    print(f"HARNESS-ERROR determinism child failed for {pid} ({label}): {p.stdout[-500:]} {p.stderr[-1500:]}")
                    bad += 1
                    continue
                variants[label] = {int(k): tuple(v) for k, v in json.loads(line[0][8:])[pid].items()}
            for label, got in variants.items():
                diff = [i for i in ref if tuple(got.get(i, ())) != tuple(ref[i])]
                if diff:
                    bad += 1
                    print(f"NONDETERMINISM property={pid} variant={label} runs={diff[:10]} e.g. {ref[diff[0]]} vs {got.get(diff[0])}")
            print(f"determinism {pid}: {len(ref)} runs x {len(variants)} variants {'OK' if not bad else 'checked'}")
        return 2 if bad else 0
    if a.selftest == "mutants":
        from . import mutants

        return mutants.main(a)
    return 0
