"""Shapes, fault plans, the sequential reference and the oracles shared by C15-C19."""
from __future__ import annotations

import asyncio

from .. import core
from ..core import Violation
from ..loop import Quiescent
from . import engine as H
from . import recovery as R
from .engine import canon

from streamflow.core.exception import WorkflowExecutionException
from streamflow.core.workflow import Status, Workflow
from streamflow.workflow.executor import StreamFlowExecutor

PHASES = ("execute", "transfer", "schedule")


# ---- shapes -----------------------------------------------------------------------------------

def gen_shape(t, kinds=("pipe", "sg", "sg2", "diamond", "fan")):
    kind = kinds[t.draw(len(kinds), "shape")]
    if kind == "pipe":
        return {"kind": "pipe", "k": 1 + t.draw(5, "pipe.len")}
    if kind == "sg":
        return {"kind": "sg", "n": (1, 2, 3, 4, 11, 12)[t.draw(6, "sg.n")], "m": 1 + t.draw(2, "sg.m")}
    if kind == "sg2":
        return {"kind": "sg2", "n": (1, 2, 3, 4, 11)[t.draw(5, "sg.n")], "m": 1 + t.draw(2, "sg.m")}
    if kind == "fan":
        return {"kind": "fan"}
    return {"kind": "diamond"}


def jobs_of(shape):
    """Static job-level DAG: job name -> list of producer job names (its provenance parents)."""
    g = {}
    k = shape["kind"]
    if k == "pipe":
        for i in range(shape["k"]):
            g[f"/A{i}/0"] = [f"/A{i - 1}/0"] if i else []
    elif k in ("sg", "sg2"):
        n, m = shape["n"], shape["m"]
        first = []
        if k == "sg2":
            g["/A/0"] = []
            first = ["/A/0"]
        for i in range(n):
            for s in range(m):
                g[f"/B{s}/0.{i}"] = [f"/B{s - 1}/0.{i}"] if s else list(first)
        g["/C/0"] = [f"/B{m - 1}/0.{i}" for i in range(n)]
    elif k == "cross":
        # two producers P, Q; Z uses both directly, X uses P directly and Q through Q1, Y uses Q directly and P through P1:
        # seen from X and from Y the two common ancestors sit at different depths
        g["/P/0"] = []
        g["/Q/0"] = []
        g["/P1/0"] = ["/P/0"]
        g["/Q1/0"] = ["/Q/0"]
        g["/Z/0"] = ["/P/0", "/Q/0"]
        g["/X/0"] = ["/P/0", "/Q1/0"]
        g["/Y/0"] = ["/Q/0", "/P1/0"]
        g["/D/0"] = ["/Z/0", "/X/0", "/Y/0"]
    elif k == "fan":
        g["/A/0"] = []
        for n in ("B", "C", "E"):
            g[f"/{n}/0"] = ["/A/0"]
        g["/D/0"] = ["/B/0", "/C/0", "/E/0"]
    else:
        g["/A/0"] = []
        g["/B/0"] = ["/A/0"]
        g["/C/0"] = ["/A/0"]
        g["/D/0"] = ["/B/0", "/C/0"]
    return g


def ancestors(g, job):
    out, stack = set(), list(g[job])
    while stack:
        x = stack.pop()
        if x not in out:
            out.add(x)
            stack.extend(g[x])
    return out


def build(shape, b: R.Builder):
    """Returns (input port, list-input length or None, output port)."""
    wf = b.wf
    p_in = wf.create_port()
    k = shape["kind"]
    if k == "pipe":
        cur = p_in
        for i in range(shape["k"]):
            # "replica": every step after the first runs on a second deployment, inputs staged read-only
            cur = b.exec_step(f"/A{i}", {"x": cur}, site_b=bool(shape.get("replica")) and i > 0,
                              out_kind=shape.get("out", "file"), union=bool(shape.get("union")))
        return p_in, None, cur
    if k in ("sg", "sg2"):
        n, m = shape["n"], shape["m"]
        if k == "sg2":
            lst = b.exec_step("/A", {"x": p_in}, out_kind="list", width=n)
            nin = None
        else:
            lst = p_in
            nin = n
        cur, size = b.scatter("/B0", lst)
        for s in range(m):
            cur = b.exec_step(f"/B{s}", {"x": cur}, transfer=not shape.get("direct"))
        gathered = b.gather("/B0", cur, size)
        out = b.exec_step("/C", {"x": gathered})
        return p_in, nin, out
    if k == "cross":
        p = b.exec_step("/P", {"x": p_in})
        q = b.exec_step("/Q", {"x": p_in})
        p1 = b.exec_step("/P1", {"x": p})
        q1 = b.exec_step("/Q1", {"x": q})
        z = b.exec_step("/Z", {"x": p, "y": q})
        x = b.exec_step("/X", {"x": p, "y": q1})
        y = b.exec_step("/Y", {"x": q, "y": p1})
        return p_in, None, b.exec_step("/D", {"x": z, "y": x, "z": y})
    if k == "fan":
        a = b.exec_step("/A", {"x": p_in})
        outs = {key: b.exec_step(f"/{n}", {"x": a}) for key, n in (("x", "B"), ("y", "C"), ("z", "E"))}
        return p_in, None, b.exec_step("/D", outs)
    a = b.exec_step("/A", {"x": p_in})
    bb = b.exec_step("/B", {"x": a})
    cc = b.exec_step("/C", {"x": a})
    d = b.exec_step("/D", {"x": bb, "y": cc})
    return p_in, None, d


def gathered_elements(shape):
    """sg / sg2: the elements the gather step must collect, in order (input of /C)."""
    c = R.compute
    n, m = shape["n"], shape["m"]
    if shape["kind"] == "sg2":
        base = c("/A", "0", {"x": "input0"})
        elems = [f"{base}#{i}" for i in range(n)]
    else:
        elems = [f"input{i}" for i in range(n)]
    outs = []
    for i, v in enumerate(elems):
        for s in range(m):
            v = c(f"/B{s}", f"0.{i}", {"x": v})
        outs.append(v)
    return outs


def reference(shape):
    """Sequential evaluation of the same functions: expected [(tag, content)] on the output port."""
    k = shape["kind"]
    c = R.compute
    if k == "pipe":
        v = "input0"
        for i in range(shape["k"]):
            v = c(f"/A{i}", "0", {"x": v})
        return [("0", v)]
    if k in ("sg", "sg2"):
        return [("0", c("/C", "0", {"x": gathered_elements(shape)}))]
    if k == "cross":
        p = c("/P", "0", {"x": "input0"})
        q = c("/Q", "0", {"x": "input0"})
        p1 = c("/P1", "0", {"x": p})
        q1 = c("/Q1", "0", {"x": q})
        return [("0", c("/D", "0", {"x": c("/Z", "0", {"x": p, "y": q}), "y": c("/X", "0", {"x": p, "y": q1}), "z": c("/Y", "0", {"x": q, "y": p1})}))]
    if k == "fan":
        a = c("/A", "0", {"x": "input0"})
        return [("0", c("/D", "0", {"x": c("/B", "0", {"x": a}), "y": c("/C", "0", {"x": a}), "z": c("/E", "0", {"x": a})}))]
    a = c("/A", "0", {"x": "input0"})
    bb = c("/B", "0", {"x": a})
    cc = c("/C", "0", {"x": a})
    return [("0", c("/D", "0", {"x": bb, "y": cc}))]


# ---- fault plans -----------------------------------------------------------------------------------

def single_fault_plans(shape, counts=(1, 2, 3)):
    g = jobs_of(shape)
    for job in g:
        for phase in PHASES:
            if phase == "transfer" and not g[job] and shape["kind"] not in ("pipe", "sg", "sg2", "diamond"):
                continue
            for kind in ("soft", "stop"):
                for n in counts:
                    yield {(phase, job): [{"kind": kind, "lose": []}] * n}


def gen_faults(t, shape, max_entries=4, allow_ancestors=True, max_count=3, concurrent=False):
    g = jobs_of(shape)
    names = sorted(g)
    faults = {}
    n = 1 + t.draw(max_entries, "faults.n")
    for _ in range(n):
        job = names[t.draw(len(names), "fault.job")]
        phase = PHASES[t.draw(3, "fault.phase")] if not concurrent else "execute"
        kind = ("soft", "stop", "stop")[t.draw(3, "fault.kind")] if not concurrent else "stop"
        cnt = 1 + t.draw(max_count, "fault.count")
        if phase == "transfer" and len(g[job]) > 1 and t.draw(2, "fault.all.inputs"):
            cnt = min(len(g[job]), 3 + t.draw(2, "fault.all.inputs.n"))  # (almost) every input transfer of the job fails in the same attempt
        lose = []
        if kind == "stop" and allow_ancestors and phase != "schedule":
            anc = sorted(ancestors(g, job))
            if anc and t.draw(2, "fault.lose.anc"):
                k = 1 + t.draw(len(anc), "fault.lose.n")
                lose = t.shuffle(anc, "fault.lose.pick")[:k]
        faults[(phase, job)] = [{"kind": kind, "lose": lose}] * cnt
    return faults


# ---- one run -----------------------------------------------------------------------------------

class RunResult:
    pass


def execute(sim, shape, faults, max_retries=10, retry_delay=0, manager="simrollback", check_dirs=None):
    """Run the shape with the fault plan under the failure manager. Returns a RunResult."""
    c = R.Ctl(sim, faults)
    c.writable = not shape.get("replica")
    sim.info["rec"] = c
    res = RunResult()
    res.ctl = c
    state = {}

    async def main():
        fm = None
        if manager == "simrollback":
            fm = {"type": "simrollback", "config": {"max_retries": max_retries, "retry_delay": retry_delay}}
        elif manager == "dummy":
            fm = {"type": "dummy", "config": {}}
        ctx = H.make_context(sim, failure_manager=fm)
        wf = Workflow(context=ctx, name="w", config={})
        b = R.Builder(sim, ctx, wf)
        p_in, nin, out = build(shape, b)
        wf.output_ports["out"] = out.name
        state.update(ctx=ctx, wf=wf, out=out, b=b)
        if check_dirs is not None:
            check_dirs(sim, ctx, wf)
        await wf.save(ctx.database)
        await b.input_files(p_in, nin)
        ex = StreamFlowExecutor(wf)
        try:
            await ex.run()
            return "ok"
        except WorkflowExecutionException:
            return "raised"

    try:
        res.status = sim.run(main())
    except Quiescent:
        res.status = "deadlock"
        res.deadlock = sim.deadlock_report()
    res.__dict__.update(state)
    return res


def desc(shape, faults):
    return canon({"shape": shape, "faults": {f"{p}:{j}": [(f["kind"], f["lose"]) for f in fl] for (p, j), fl in faults.items()}})[:1500]
