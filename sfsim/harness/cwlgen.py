"""Generator of CWL v1.2 workflow documents for C29/C34 (DESIGN.md section 4, C29).

A deliberately conservative, typed grammar: every value that flows has a tracked CWL type, so the
documents are valid by construction (the rare intentionally failing shapes - unequal dot-product
lengths, the_only_non_null with two or zero candidates - are listed in `hazards`).  The reference
implementation (cwltool) is the oracle; nothing here predicts outputs.
"""
from __future__ import annotations

import json
import os

INT, STR, BOOL, FILE = ("int",), ("string",), ("boolean",), ("File",)
REC = ("record",)   # {x: int, s: string}


def arr(t):
    return ("array", t)


def opt(t):
    return t if t[0] == "opt" else ("opt", t)


def base(t):
    return t[1] if t[0] == "opt" else t


def cwl_type(t):
    if t[0] == "array":
        return {"type": "array", "items": cwl_type(t[1])}
    if t[0] == "opt":
        return ["null", cwl_type(t[1])]
    if t == REC:
        return {"type": "record", "fields": [{"name": "x", "type": "int"}, {"name": "s", "type": "string"}]}
    return t[0]


def has_record(t):
    return t == REC or (t[0] in ("array", "opt") and has_record(t[1]))


def has_file(t):
    return t == FILE or (t[0] in ("array", "opt") and has_file(t[1]))


def tname(t):
    if t[0] == "array":
        return tname(t[1]) + "[]"
    if t[0] == "opt":
        return tname(t[1]) + "?"
    return t[0]


LIB = ["function nz(x, d) { return (x === null || x === undefined) ? d : x; }"]
JSREQ = {"InlineJavascriptRequirement": {"expressionLib": LIB}}
STRINGS = ["a", "hello world", "it's", 'say "hi"', "ünï ✓", "$HOME", "x;y", "", "tab\there", "-n"]
CONTENTS = ["file one\n", "", "no newline", "ünï ✓ content\nline2\n"]


# ---- tools ------------------------------------------------------------------------------------------

def expr_tool(inputs, out_t, body):
    return {"class": "ExpressionTool", "requirements": JSREQ, "inputs": {k: {"type": cwl_type(v)} for k, v in inputs.items()},
            "outputs": {"o": {"type": cwl_type(out_t)}}, "expression": "${ " + body + " }"}


def _int_of(name, t):
    """JS expression giving an int from input `name` of type int / int? """
    return f"nz(inputs.{name}, 7)"


FAMILIES = {}


def family(name, nin):
    def deco(fn):
        FAMILIES[name] = (nin, fn)
        return fn
    return deco


def accepts(fam, pos, t):
    """May a value of (effective) type t be wired to input #pos of family fam?"""
    b = base(t)
    if fam in ("add", "range", "odd", "gt"):
        return b == INT
    if fam == "cat2":
        return b in (INT, STR, BOOL)
    if fam == "show":
        # (the key order of an object is not part of its value: records are not rendered as text)
        return not has_file(t) and not has_record(t)
    if fam == "recx":
        return t == REC
    if fam == "mkrec":
        return b == INT
    if fam == "len":
        return b[0] == "array"
    if fam == "sum":
        return b[0] == "array" and base(b[1]) == INT
    if fam == "echo":
        return b in (INT, STR)
    if fam == "tofile":
        return b in (STR, INT) and t[0] != "opt"
    if fam == "catf":
        return t == FILE
    if fam == "names":
        return t == arr(FILE)
    return False


@family("add", 2)
def _add(ts):
    return expr_tool({"a": ts[0], "b": ts[1]}, INT, 'return {"o": nz(inputs.a, 100) * 2 + nz(inputs.b, 7)};'), INT


@family("cat2", 2)
def _cat2(ts):
    return expr_tool({"a": ts[0], "b": ts[1]}, STR, 'return {"o": "" + nz(inputs.a, "<null>") + "/" + nz(inputs.b, "<null>")};'), STR


@family("show", 1)
def _show(ts):
    return expr_tool({"a": ts[0]}, STR, 'return {"o": JSON.stringify(nz(inputs.a, null))};'), STR


@family("len", 1)
def _len(ts):
    return expr_tool({"a": ts[0]}, INT, 'return {"o": nz(inputs.a, []).length};'), INT


@family("range", 1)
def _range(ts):
    return expr_tool({"a": ts[0]}, arr(INT), 'var r = []; var a = nz(inputs.a, 2); for (var i = 0; i < (Math.abs(a) % 4); i++) { r.push(a + i); } return {"o": r};'), arr(INT)


@family("sum", 1)
def _sum(ts):
    return expr_tool({"a": ts[0]}, INT, 'var s = 0; var a = nz(inputs.a, []); for (var i = 0; i < a.length; i++) { s += nz(a[i], 1000); } return {"o": s};'), INT


@family("odd", 1)
def _odd(ts):
    return expr_tool({"a": ts[0]}, opt(INT), 'var a = nz(inputs.a, 0); return {"o": (a % 2 == 0) ? null : a};'), opt(INT)


@family("gt", 1)
def _gt(ts):
    return expr_tool({"a": ts[0]}, BOOL, 'return {"o": nz(inputs.a, 0) > 1};'), BOOL


@family("recx", 1)
def _recx(ts):
    return expr_tool({"a": ts[0]}, INT, 'return {"o": inputs.a.x * 2 + inputs.a.s.length};'), INT


@family("mkrec", 1)
def _mkrec(ts):
    return expr_tool({"a": ts[0]}, REC, 'var a = nz(inputs.a, 0); return {"o": {"x": a, "s": "v" + a}};'), REC


V1_FAMILIES = ("add", "cat2", "catf", "echo", "gt", "len", "names", "odd", "range", "show", "sum", "tofile")


@family("names", 1)
def _names(ts):
    return expr_tool({"a": ts[0]}, arr(STR), 'return {"o": inputs.a.map(function(f) { return f.basename; })};'), arr(STR)


@family("echo", 2)
def _echo(ts):
    return {"class": "CommandLineTool", "requirements": JSREQ, "baseCommand": ["/bin/echo"],
            "inputs": {"a": {"type": cwl_type(ts[0]), "inputBinding": {"position": 1, "prefix": "--a"}},
                       "b": {"type": cwl_type(ts[1]), "inputBinding": {"position": 2}}},
            "stdout": "o.txt",
            "outputs": {"o": {"type": "string", "outputBinding": {"glob": "o.txt", "loadContents": True, "outputEval": "$(self[0].contents)"}}}}, STR


@family("tofile", 1)
def _tofile(ts):
    return {"class": "CommandLineTool", "requirements": JSREQ, "baseCommand": ["/bin/echo"],
            "inputs": {"a": {"type": cwl_type(ts[0]), "inputBinding": {"position": 1}}},
            "stdout": "made.txt", "outputs": {"o": {"type": "File", "outputBinding": {"glob": "made.txt"}}}}, FILE


@family("catf", 1)
def _catf(ts):
    return {"class": "CommandLineTool", "requirements": JSREQ, "baseCommand": ["/bin/cat"],
            "inputs": {"a": {"type": "File", "inputBinding": {"position": 1}}},
            "stdout": "c.txt",
            "outputs": {"o": {"type": "string", "outputBinding": {"glob": "c.txt", "loadContents": True, "outputEval": "$(self[0].contents)"}}}}, STR


# ---- generator --------------------------------------------------------------------------------------

# productions of the first grammar version: the committed replay files of C29/C34 were recorded with exactly these
# optional productions drawing from the tape; later productions are enabled by `grammar=2` (separate enumerated cases)
V1_FEATURES = frozenset(["output_merge", "subworkflow", "scatter_any_method", "when", "multi_source", "default_for_null", "valueFrom"])
V2_FEATURES = V1_FEATURES | frozenset(["tool_default", "valueFrom_other_input", "optional_array_input", "loop", "records", "nested_subworkflow"])


class Gen:
    def __init__(self, t, scratch, features=None, max_steps=6):
        self.t = t
        self.scratch = scratch
        self.max_steps = max_steps
        self.features = features
        self.used = set()      # grammar productions used by this document
        self.hazards = set()   # productions that may legitimately fail at run time
        self.nfile = 0

    def on(self, feat, n=3):
        """Is optional production `feat` taken here? (0 = simplest = no)"""
        if self.features is not None and feat not in self.features:
            return False
        v = self.t.draw(n, "feat." + feat)
        if feat in ("multi_source", "output_merge") and self.features is not None and "loop" in self.features:
            return v >= n - 2      # grammar 2: several sources (linkMerge / pickValue) twice as often, same tape layout
        return v == n - 1

    # -- literals ----------------------------------------------------------------------------------
    def literal(self, ty, label):
        t = self.t
        if ty == INT:
            return (0, 1, 2, 3, 5, 10, 11, -3)[t.draw(8, label + ".int")]
        if ty == STR:
            return STRINGS[t.draw(len(STRINGS), label + ".str")]
        if ty == BOOL:
            return bool(t.draw(2, label + ".bool"))
        if ty == FILE:
            self.nfile += 1
            p = os.path.join(self.scratch, f"in{self.nfile}.txt")
            with open(p, "w", encoding="utf-8") as f:
                f.write(CONTENTS[t.draw(len(CONTENTS), label + ".content")])
            return {"class": "File", "path": p}
        if ty[0] == "array":
            n = (2, 0, 1, 3, 4, 11)[t.draw(6, label + ".len")]
            return [self.literal(ty[1], label + ".el") for _ in range(n)]
        if ty[0] == "opt":
            return None if t.draw(3, label + ".null") == 0 else self.literal(ty[1], label)
        if ty == REC:
            return {"x": self.literal(INT, label + ".x"), "s": self.literal(STR, label + ".s")}
        raise AssertionError(ty)

    def input_type(self):
        t = self.t
        if self.features is not None and "optional_array_input" in self.features:
            k = t.draw(13, "input.type")
            return (INT, arr(INT), STR, arr(STR), BOOL, opt(INT), FILE, arr(FILE), arr(arr(INT)), arr(opt(INT)), arr(opt(INT)), REC, arr(REC))[k]
        k = t.draw(9, "input.type")
        return (INT, arr(INT), STR, arr(STR), BOOL, opt(INT), FILE, arr(FILE), arr(arr(INT)))[k]

    # -- one workflow ---------------------------------------------------------------------------------
    def workflow(self, given=None, depth=0, nsteps=None):
        """Returns (doc, input_values or None, outputs {name: type}). `given` = list of (name, type) inputs fixed by the caller."""
        t = self.t
        doc = {"class": "Workflow", "requirements": {"ScatterFeatureRequirement": {}, "MultipleInputFeatureRequirement": {}, "StepInputExpressionRequirement": {},
                                                       "SubworkflowFeatureRequirement": {}, **JSREQ},
               "inputs": {}, "outputs": {}, "steps": {}}
        if depth == 0:
            doc = {"cwlVersion": "v1.2", "$namespaces": {"cwltool": "http://commonwl.org/cwltool#"}, **doc}
        avail = []
        job = {}
        if given is None:
            for i in range(1 + t.draw(3, "ninputs")):
                ty = self.input_type()
                doc["inputs"][f"i{i}"] = {"type": cwl_type(ty)}
                job[f"i{i}"] = self.literal(ty, "input")
                avail.append((f"i{i}", ty))
        else:
            for name, ty in given:
                doc["inputs"][name] = {"type": cwl_type(ty)}
                avail.append((name, ty))
        nsteps = nsteps if nsteps is not None else 1 + t.draw(self.max_steps, "nsteps")
        consumed = set()
        produced = []
        for k in range(nsteps):
            st, out_t, used_refs = self.step(avail, depth, k)
            doc["steps"][f"s{k}"] = st
            ref = f"s{k}/o"
            # the reference runner's static checker wraps the type of a loop output once more at every reference to it
            # (cwltool quirk): a loop output is referenced exactly once, by a workflow output
            if "cwltool:Loop" not in st.get("requirements", {}):
                avail.append((ref, out_t))
            produced.append((ref, out_t))
            consumed |= used_refs
        outs = {}
        for ref, ty in produced:
            if ref not in consumed or t.draw(3, "out.also") == 0 or "cwltool:Loop" in doc["steps"][ref.split("/")[0]].get("requirements", {}):
                name = "o_" + ref.split("/")[0]
                doc["outputs"][name] = {"type": cwl_type(ty), "outputSource": ref}
                outs[name] = ty
        if depth == 0 and self.on("output_merge", 4):
            self.output_merge(doc, avail, outs)
        if not doc["outputs"]:
            ref, ty = produced[-1]
            doc["outputs"]["o_last"] = {"type": cwl_type(ty), "outputSource": ref}
            outs["o_last"] = ty
        return doc, job, outs

    def output_merge(self, doc, avail, outs):
        t = self.t
        pairs = [(a, b) for i, a in enumerate(avail) for b in avail[i + 1:] if base(a[1]) == base(b[1]) and not has_file(a[1]) and a[1][0] != "array"]
        if not pairs:
            return
        a, b = pairs[t.draw(len(pairs), "outmerge.pair")]
        ty = base(a[1])
        anyopt = a[1][0] == "opt" or b[1][0] == "opt"
        kind = t.draw(4, "outmerge.kind")
        if kind == 0:
            doc["outputs"]["o_merge"] = {"type": cwl_type(arr(opt(ty) if anyopt else ty)), "outputSource": [a[0], b[0]], "linkMerge": "merge_nested"}
            self.used.add("output.linkMerge.merge_nested")
        elif kind == 1:
            doc["outputs"]["o_merge"] = {"type": cwl_type(arr(ty)), "outputSource": [a[0], b[0]], "pickValue": "all_non_null"}
            self.used.add("output.pickValue.all_non_null")
        elif kind == 2:
            doc["outputs"]["o_merge"] = {"type": cwl_type(ty), "outputSource": [a[0], b[0]], "pickValue": "first_non_null"}
            self.used.add("output.pickValue.first_non_null")
            if a[1][0] == "opt" and b[1][0] == "opt":
                self.hazards.add("first_non_null over optionals only")
        else:
            doc["outputs"]["o_merge"] = {"type": cwl_type(ty), "outputSource": [a[0], b[0]], "pickValue": "the_only_non_null"}
            self.used.add("output.pickValue.the_only_non_null")
            self.hazards.add("the_only_non_null needs exactly one non-null")
        outs["o_merge"] = None

    # -- one step -----------------------------------------------------------------------------------------
    def loop_step(self, avail):
        """A step iterated with the cwltool:Loop extension: a := a + inc while a < lim (0, 1, 10, 11, ... iterations)."""
        t = self.t
        ints = [(r, ty) for r, ty in avail if ty == INT]
        ins = {}
        refs = set()
        if ints and t.draw(3, "loop.src") != 0:
            r, _ = ints[t.draw(len(ints), "loop.ref")]
            ins["a"] = {"source": r}
            refs.add(r)
        else:
            ins["a"] = {"default": (0, 1, 3, 10)[t.draw(4, "loop.start")]}
        ins["lim"] = {"default": (11, 0, 1, 2, 12, 21)[t.draw(6, "loop.lim")]}
        inc = (1, 2)[t.draw(2, "loop.inc")]
        method = ("last", "all")[t.draw(2, "loop.method")]
        tool = expr_tool({"a": INT, "lim": INT}, INT, 'return {"o": inputs.a + %d};' % inc)
        loop = {"a": "o"} if t.draw(3, "loop.valueFrom") else {"a": {"loopSource": "o", "valueFrom": "$(self + 1)"}}
        step = {"in": ins, "out": ["o"], "run": tool,
                "requirements": {"cwltool:Loop": {"loopWhen": "$(inputs.a < inputs.lim)", "loop": loop, "outputMethod": method}}}
        self.used.add("loop." + method)
        if isinstance(loop["a"], dict):
            self.used.add("loop.valueFrom")
        return step, (opt(INT) if method == "last" else arr(INT)), refs

    def step(self, avail, depth, k):
        t = self.t
        if depth == 0 and self.on("loop", 7):
            return self.loop_step(avail)
        fams = sorted(FAMILIES) if self.features is not None and "records" in self.features else sorted(V1_FAMILIES)
        for _attempt in range(6):
            fam = fams[t.draw(len(fams), "family")]
            nin, make = FAMILIES[fam]
            wired = self.wire(fam, nin, avail)
            if wired is not None and depth > 0 and not wired[3] and _attempt < 5:
                wired = None   # inside a subworkflow prefer steps that consume something
            if wired is not None:
                break
        else:
            fam = "show"
            nin, make = FAMILIES[fam]
            wired = self.wire(fam, nin, avail, force=True)
        ins, eff, scattered, refs = wired
        self.used.add("tool." + fam)
        tool, out_t = make(eff)
        names = ["a", "b"][:nin]
        # a default declared by the TOOL for an optional input (applies whenever the delivered value is null)
        for n, ety in zip(names, eff):
            if ety[0] == "opt" and base(ety) in (INT, STR) and isinstance(tool["inputs"][n], dict) and self.on("tool_default", 2):
                tool["inputs"][n]["default"] = self.literal(base(ety), "tool.default")
                self.used.add("tool_input.default")
        # a later input's valueFrom reading an EARLIER input of the same step (it must see the value before valueFrom)
        if nin == 2 and "source" in ins["a"] and "source" in ins["b"] and eff[0] == eff[1] and eff[0] in (INT, STR) and not scattered[0] and self.on("valueFrom_other_input", 3):
            ins["b"]["valueFrom"] = "$(self + inputs.a)" if eff[0] == INT else '$(self + "+" + inputs.a)'
            ins["a"].setdefault("valueFrom", "$(self + 1)" if eff[0] == INT else '$(self + "!")')
            self.used.add("valueFrom.reads_other_input")
        if depth == 0 and self.on("subworkflow", 5):
            tool, out_t = self.subworkflow(tool, eff, out_t)
        step = {"in": ins, "out": ["o"], "run": tool}
        sc = [n for n, s in zip(names, scattered) if s]
        nest = 0
        if sc:
            step["scatter"] = sc if len(sc) > 1 else sc[0]
            self.used.add("scatter.1" if len(sc) == 1 else "scatter.2")
            nest = 1
            if len(sc) > 1:
                same = ins[sc[0]].get("source") == ins[sc[1]].get("source") and "valueFrom" not in ins[sc[0]] and "valueFrom" not in ins[sc[1]]
                m = ("dotproduct", "flat_crossproduct", "nested_crossproduct")[t.draw(3, "scatter.method")] if same or self.on("scatter_any_method", 2) else \
                    ("flat_crossproduct", "nested_crossproduct")[t.draw(2, "scatter.method2")]
                step["scatterMethod"] = m
                self.used.add("scatterMethod." + m)
                if m == "dotproduct" and not same:
                    self.hazards.add("dotproduct over arrays of possibly different length")
                nest = 2 if m == "nested_crossproduct" else 1
        if self.on("when", 4):
            conds = [(r, ty) for r, ty in avail if base(ty) in (BOOL, INT) and ty[0] != "array"]
            if conds:
                r, ty = conds[t.draw(len(conds), "when.cond")]
                step["in"]["c"] = {"source": r}
                refs = refs | {r}
                step["when"] = "$(inputs.c === true)" if base(ty) == BOOL else "$(nz(inputs.c, 0) > 1)"
                self.used.add("when")
                out_t = opt(out_t)
            elif len(sc) == 1 and base(eff[names.index(sc[0])]) == INT:
                step["when"] = f"$(nz(inputs.{sc[0]}, 0) > 1)"
                self.used.add("when.on_scattered_input")
                out_t = opt(out_t)
        for _ in range(nest):
            out_t = arr(out_t)
        return step, out_t, refs

    def wire(self, fam, nin, avail, force=False):
        """Choose sources for the inputs of a family. Returns (in-map, effective types, scattered flags, refs used) or None."""
        t = self.t
        ins, eff, scattered, refs = {}, [], [], set()
        for pos in range(nin):
            name = "ab"[pos]
            choice = None
            if avail and not (force and pos > 0):
                order = t.shuffle(list(range(len(avail))), "wire.order") if hasattr(t, "shuffle") else list(range(len(avail)))
                for idx in order[:4]:
                    ref, ty = avail[idx]
                    c = self.adapt(fam, pos, ref, ty, avail)
                    if c is not None:
                        choice = c
                        break
            if choice is None:
                # no usable source: a literal default
                lt = {"add": INT, "range": INT, "odd": INT, "gt": INT, "cat2": STR, "show": arr(INT), "len": arr(STR), "sum": arr(INT), "mkrec": INT,
                      "echo": STR, "tofile": STR}.get(fam)
                if lt is None:
                    return None
                ins[name] = {"default": self.literal(lt, "default")}
                eff.append(lt)
                scattered.append(False)
                self.used.add("step_input.default_only")
                continue
            entry, ety, sc, used = choice
            ins[name] = entry
            eff.append(ety)
            scattered.append(sc)
            refs |= used
        return ins, eff, scattered, refs

    def adapt(self, fam, pos, ref, ty, avail):
        """How can source (ref, ty) feed input #pos of fam? -> (entry, effective type, scattered?, refs)"""
        t = self.t
        entry = {"source": ref}
        used = {ref}
        # multiple sources (linkMerge / pickValue)
        if self.on("multi_source", 5):
            same = [(r, x) for r, x in avail if r != ref and base(x) == base(ty) and not has_file(x)]
            if same and not has_file(ty):
                r2, ty2 = same[t.draw(len(same), "multi.other")]
                kind = t.draw(4, "multi.kind")
                anyopt = ty[0] == "opt" or ty2[0] == "opt"
                b = base(ty)
                if kind == 0:
                    mt = arr(opt(b) if anyopt else b)
                    e2 = {"source": [ref, r2], "linkMerge": "merge_nested"}
                    tag = "step_input.linkMerge.merge_nested"
                elif kind == 1 and b[0] == "array" and not anyopt:
                    mt = b
                    e2 = {"source": [ref, r2], "linkMerge": "merge_flattened"}
                    tag = "step_input.linkMerge.merge_flattened"
                elif kind == 2 and b[0] != "array":
                    mt = arr(b)
                    e2 = {"source": [ref, r2], "pickValue": "all_non_null"}
                    tag = "step_input.pickValue.all_non_null"
                elif kind == 3 and b[0] != "array" and not (ty[0] == "opt" and ty2[0] == "opt"):
                    mt = b
                    e2 = {"source": [ref, r2], "pickValue": "first_non_null"}
                    tag = "step_input.pickValue.first_non_null"
                else:
                    mt = None
                if mt is not None:
                    if accepts(fam, pos, mt):
                        self.used.add(tag)
                        return e2, mt, False, {ref, r2}
                    if mt[0] == "array" and accepts(fam, pos, mt[1]):
                        self.used.add(tag)
                        return e2, mt[1], True, {ref, r2}
        if accepts(fam, pos, ty):
            ety = ty
            if ty[0] == "opt" and self.on("default_for_null", 2):
                entry["default"] = self.literal(ty[1], "default")
                ety = ty[1]
                self.used.add("step_input.default_with_source")
            sc = False
        elif ty[0] == "array" and accepts(fam, pos, ty[1]):
            ety, sc = ty[1], True
        else:
            return None
        if ety[0] != "opt" and self.on("valueFrom", 4):
            b = ety
            vf = None
            if b == INT:
                vf = "$(self + 1)"
            elif b == STR:
                vf = '$(self + "!")'
            elif b == BOOL:
                vf = "$(!self)"
            elif b[0] == "array" and not has_file(b):
                vf = "$(self.slice().reverse())"
            if vf is not None:
                entry["valueFrom"] = vf
                self.used.add("valueFrom")
        return entry, ety, sc, used

    def subworkflow(self, tool, eff, out_t):
        """Wrap `tool` into an inner workflow: tool step + 0..1 further inner steps on its output."""
        t = self.t
        names = ["a", "b"][:len(eff)]
        inner = {"class": "Workflow", "requirements": {"ScatterFeatureRequirement": {}, "MultipleInputFeatureRequirement": {}, "StepInputExpressionRequirement": {}, **JSREQ},
                 "inputs": {n: {"type": cwl_type(ty)} for n, ty in zip(names, eff)}, "outputs": {}, "steps": {}}
        inner["steps"]["t0"] = {"in": {n: {"source": n} for n in names}, "out": ["o"], "run": tool}
        avail = [("t0/o", out_t)]
        last, last_t = "t0/o", out_t
        if t.draw(2, "sub.more"):
            st, ty2, _ = self.step(avail, 1, 1)
            inner["steps"]["t1"] = st
            last, last_t = "t1/o", ty2
        inner["outputs"]["o"] = {"type": cwl_type(last_t), "outputSource": last}
        self.used.add("subworkflow")
        if self.on("nested_subworkflow", 3):
            # one more level: a workflow whose only step runs the inner workflow
            inner = {"class": "Workflow", "requirements": {"SubworkflowFeatureRequirement": {}, **JSREQ},
                     "inputs": {n: {"type": cwl_type(ty)} for n, ty in zip(names, eff)},
                     "outputs": {"o": {"type": cwl_type(last_t), "outputSource": "u0/o"}},
                     "steps": {"u0": {"in": {n: {"source": n} for n in names}, "out": ["o"], "run": inner}}}
            self.used.add("subworkflow.nested")
        return inner, last_t


def generate(t, scratch, features=None, max_steps=6, grammar=1):
    g = Gen(t, scratch, features if features is not None else (V1_FEATURES if grammar == 1 else V2_FEATURES), max_steps)
    doc, job, outs = g.workflow()
    wf = os.path.join(scratch, "wf.cwl")
    jf = os.path.join(scratch, "job.json")
    with open(wf, "w") as f:
        json.dump(doc, f, indent=1)
    with open(jf, "w") as f:
        json.dump(job, f, indent=1)
    return {"doc": doc, "job": job, "outputs": outs, "wf": wf, "jobfile": jf, "used": sorted(g.used), "hazards": sorted(g.hazards)}
