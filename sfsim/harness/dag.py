"""H2 (DESIGN.md §3): random DAG workflows over the repo's step classes + a sequential
reference evaluation (expected tokens per stream are computed while the graph is generated,
with no concurrency)."""
from __future__ import annotations

import asyncio
import itertools

from .. import core
from . import engine as H
from .engine import FUNCS, SimParallel, SimTransformer, canon, plain, to_token

from streamflow.core.utils import compare_tags
from streamflow.core.workflow import Status, Token, Workflow
from streamflow.workflow.combinator import CartesianProductCombinator, DotProductCombinator
from streamflow.workflow.step import CombinatorStep, ConditionalStep, GatherStep, ScatterStep
from streamflow.workflow.token import ListToken, TerminationToken
from functools import cmp_to_key

FUNCS["range"] = lambda name, vals: list(range(H._deep_sum(vals) % 4))
FUNCS["pair"] = lambda name, vals: [vals, H._deep_sum(vals)]


class SimConditional(ConditionalStep):
    """ConditionalStep whose predicate is a pure function of the inputs; like CWL's `when`,
    a false branch emits a null token (so downstream tag sets stay complete)."""

    def __init__(self, name, workflow, modulo: int = 2):
        super().__init__(name, workflow)
        self.modulo = modulo

    @classmethod
    async def _load(cls, row, loading_context):
        return cls(name=row["name"], workflow=await loading_context.load_workflow(row["workflow"]),
                   modulo=row["params"]["modulo"])

    async def _save_additional_params(self, database):
        return (await super()._save_additional_params(database)) | {"modulo": self.modulo}

    async def _eval(self, inputs):
        sim = core.CURRENT
        tag = next(iter(inputs.values())).tag
        await sim.io("cond", f"{self.name}:{tag}")
        return H._deep_sum([plain(inputs[k]) for k in sorted(inputs)]) % self.modulo == 0

    async def _emit(self, inputs, passthrough: bool):
        from streamflow.core.utils import get_entity_ids

        for name, tok in inputs.items():
            port = self.get_output_port(name)
            new = tok.update(tok.value) if passthrough else Token(None, tag=tok.tag)
            port.put(await self._persist_token(new, port, get_entity_ids(inputs.values())))

    async def _on_true(self, inputs):
        await self._emit(inputs, True)

    async def _on_false(self, inputs):
        await self._emit(inputs, False)


def cond_expected(v, modulo):
    return v if H._deep_sum([v]) % modulo == 0 else None


def _sorted_tags(tags):
    return sorted(tags, key=cmp_to_key(compare_tags))


class Stream:
    __slots__ = ("name", "fam", "expected", "consumers", "producer", "port")

    def __init__(self, name, fam, expected, producer):
        self.name = name
        self.fam = fam          # tuple of scatter ids (innermost last); ("cart", a, b) marks a cross product
        self.expected = expected  # tag -> plain value
        self.consumers = 0
        self.producer = producer
        self.port = None


class Plan:
    """A generated workload: list of node descriptions + streams with expected contents."""

    def __init__(self):
        self.nodes = []
        self.streams = {}
        self.scatters = {}
        self.inputs = []
        self.fail = None
        self.empty_ports = []

    def describe(self):
        return {
            "nodes": [{k: v for k, v in n.items() if k != "expected"} for n in self.nodes],
            "inputs": [(s, v) for s, v in self.inputs],
            "fail": self.fail,
        }


def _gen_value(t, depth):
    if depth == 0:
        return t.draw(7, "val")
    n = (0, 1, 2, 3, 11)[t.draw(5, "len")] if depth == 1 else t.draw(4, "len.outer")
    return [_gen_value(t, depth - 1) for _ in range(n)]


def _all_lists(st):
    return all(isinstance(v, list) for v in st.expected.values())


def generate(t, max_nodes=10, allow_fail=False, ops_enabled=None) -> Plan:
    plan = Plan()
    counter = itertools.count()

    def new_stream(fam, expected, producer):
        s = Stream(f"p{next(counter)}", fam, expected, producer)
        plan.streams[s.name] = s
        return s

    nin = 1 + t.draw(3, "n.inputs")
    for i in range(nin):
        v = _gen_value(t, t.draw(3, "in.depth"))
        s = new_stream((), {"0": v}, None)
        plan.inputs.append((s.name, v))
    nnodes = 1 + t.draw(max_nodes, "n.nodes")
    ops = ops_enabled or ("xf1", "xf1", "xf2", "scatter", "scatter", "gather", "gather", "dot", "cart", "cart", "gather2", "cond")
    budget_tokens = 60
    # Optional scripted prefix (swarm style): shapes in which arrival order matters most, so they
    # are common instead of rare; random nodes follow.
    script = ((), ("scatter", "xf1s", "xf1s", "dot", "gather"),
              ("scatter", "scatter", "xf1s", "xf1s", "cart", "gather2"))[t.draw(3, "template")] if ops_enabled is None else ()
    if script:
        big = [0, 1, 2, 3, 4, 5, 6, 7, 8, 9, 10] if script[-1] == "gather" else [0, 1, 2]
        plan.inputs[0] = (plan.inputs[0][0], big)
        plan.streams[plan.inputs[0][0]].expected = {"0": big}
    for step_i in range(nnodes + len(script)):
        op = script[step_i] if step_i < len(script) else ops[t.draw(len(ops), "op")]
        if op == "xf1s":
            # transformer on the most recent scattered stream that has no consumer yet
            cs = [x for x in plan.streams.values() if x.fam and x.fam[0] != "cart" and x.consumers == 0]
            if cs:
                s = cs[0]
                nid = f"n{len(plan.nodes)}"
                exp = {tag: FUNCS["wrap"](f"/{nid}", [v]) for tag, v in s.expected.items()}
                o = new_stream(s.fam, exp, nid)
                s.consumers += 1
                plan.nodes.append({"id": nid, "op": "xf", "fn": "wrap", "par": 1, "ins": {"a": s.name}, "outs": {"o": o.name}})
            continue
        streams = list(plan.streams.values())
        nid = f"n{len(plan.nodes)}"
        if op == "xf1":
            s = streams[t.draw(len(streams), "pick")]
            fn = ("id", "wrap", "sum", "range", "pair")[t.draw(5, "fn")]
            exp = {tag: FUNCS[fn](f"/{nid}", [v]) for tag, v in s.expected.items()}
            o = new_stream(s.fam, exp, nid)
            s.consumers += 1
            plan.nodes.append({"id": nid, "op": "xf", "fn": fn, "par": t.draw(2, "par"), "ins": {"a": s.name}, "outs": {"o": o.name}})
        elif op == "xf2":
            s = streams[t.draw(len(streams), "pick")]
            same = [x for x in streams if x.fam == s.fam and set(x.expected) == set(s.expected)]
            s2 = same[t.draw(len(same), "pick2")]
            fn = ("wrap", "sum", "pair")[t.draw(3, "fn")]
            exp = {tag: FUNCS[fn](f"/{nid}", [s.expected[tag], s2.expected[tag]]) for tag in s.expected}
            o = new_stream(s.fam, exp, nid)
            s.consumers += 1
            s2.consumers += 1
            plan.nodes.append({"id": nid, "op": "xf", "fn": fn, "par": t.draw(2, "par"), "ins": {"a": s.name, "b": s2.name}, "outs": {"o": o.name}})
        elif op == "scatter":
            cands = [x for x in streams if _all_lists(x) and len(x.fam) < 3 and not (x.fam and x.fam[0] == "cart")
                     and sum(len(v) for v in x.expected.values()) <= budget_tokens]
            if not cands:
                continue
            s = cands[t.draw(len(cands), "pick")]
            exp = {f"{tag}.{i}": v for tag, lst in s.expected.items() for i, v in enumerate(lst)}
            sid = nid
            o = new_stream(s.fam + (sid,), exp, nid)
            plan.scatters[sid] = {"sizes": {tag: len(lst) for tag, lst in s.expected.items()}, "fwd": t.draw(2, "size.fwd")}
            s.consumers += 1
            plan.nodes.append({"id": nid, "op": "scatter", "ins": {"a": s.name}, "outs": {"o": o.name}})
        elif op == "gather":
            # only streams that still carry every tag their scatter produced (a dot product with a
            # sparser stream drops tags; gathering a partial set is not generated)
            cands = [x for x in streams if x.fam and x.fam[0] != "cart"
                     and all(f"{pt}.{i}" in x.expected for pt, n in plan.scatters[x.fam[-1]]["sizes"].items() for i in range(n))
                     and len(x.expected) == sum(plan.scatters[x.fam[-1]]["sizes"].values())]
            if not cands:
                continue
            s = cands[t.draw(len(cands), "pick")]
            sid = s.fam[-1]
            sizes = plan.scatters[sid]["sizes"]
            exp = {}
            for ptag, n in sizes.items():
                exp[ptag] = [s.expected[f"{ptag}.{i}"] for i in range(n)]
            o = new_stream(s.fam[:-1], exp, nid)
            s.consumers += 1
            plan.nodes.append({"id": nid, "op": "gather", "scatter": sid, "ins": {"a": s.name}, "outs": {"o": o.name}})
        elif op == "dot":
            s = streams[t.draw(len(streams), "pick")]
            if s.fam and s.fam[0] == "cart":
                continue
            cands = [x for x in streams if x is not s and not (x.fam and x.fam[0] == "cart")
                     and x.fam[: len(s.fam)] == s.fam and _prefix_ok(s, x)]
            if not cands:
                continue
            d = cands[t.draw(len(cands), "pick2")]  # d is at least as deep as s
            exp_s, exp_d = {}, {}
            k = len(s.fam) + 1
            for tag, v in d.expected.items():
                ptag = ".".join(tag.split(".")[:k])
                if ptag in s.expected:
                    exp_s[tag] = s.expected[ptag]
                    exp_d[tag] = v
            o1 = new_stream(d.fam, exp_s, nid)
            o2 = new_stream(d.fam, exp_d, nid)
            s.consumers += 1
            d.consumers += 1
            plan.nodes.append({"id": nid, "op": "dot", "ins": {"a": s.name, "b": d.name}, "outs": {"a": o1.name, "b": o2.name}})
        elif op == "cart":
            cands = [x for x in streams if x.fam and x.fam[0] != "cart" and len(x.expected) <= 6]
            pairs = [(a, b) for a in cands for b in cands
                     if a is not b and a.fam[:-1] == b.fam[:-1] and a.fam[-1] != b.fam[-1]
                     and len(a.expected) * len(b.expected) <= 24]
            if not pairs:
                continue
            a, b = pairs[t.draw(len(pairs), "pick")]
            exp_a, exp_b = {}, {}
            for ta, va in a.expected.items():
                for tb, vb in b.expected.items():
                    if ta.rsplit(".", 1)[0] == tb.rsplit(".", 1)[0]:
                        tag = ta + "." + tb.rsplit(".", 1)[1]
                        exp_a[tag] = va
                        exp_b[tag] = vb
            fam = ("cart", a.fam, b.fam)
            o1 = new_stream(fam, exp_a, nid)
            o2 = new_stream(fam, exp_b, nid)
            a.consumers += 1
            b.consumers += 1
            plan.nodes.append({"id": nid, "op": "cart", "ins": {"a": a.name, "b": b.name}, "outs": {"a": o1.name, "b": o2.name}})
        elif op == "gather2":
            # one GatherStep(depth=2) over a cross product, size unknown (the size port only
            # terminates): the step gathers every key when its inputs terminate
            cands = [x for x in streams if x.fam and x.fam[0] == "cart"]
            if not cands:
                continue
            s = cands[t.draw(len(cands), "pick")]
            groups = {}
            for tag in _sorted_tags(s.expected):
                groups.setdefault(".".join(tag.split(".")[:-2]), []).append(s.expected[tag])
            o = new_stream(s.fam[1][:-1], groups, nid)
            s.consumers += 1
            plan.nodes.append({"id": nid, "op": "gather2", "ins": {"a": s.name}, "outs": {"o": o.name}})
        elif op == "cond":
            s = streams[t.draw(len(streams), "pick")]
            modulo = 2 + t.draw(2, "mod")
            exp = {tag: cond_expected(v, modulo) for tag, v in s.expected.items()}
            o = new_stream(s.fam, exp, nid)
            s.consumers += 1
            plan.nodes.append({"id": nid, "op": "cond", "modulo": modulo, "ins": {"a": s.name}, "outs": {"a": o.name}})
    if allow_fail:
        # a transformer (handles its own exceptions: FAILED) or a plug-in combinator (CombinatorStep has no handler: the
        # exception escapes step.run() and the executor closes everything)
        xfs = [n for n in plan.nodes if n["op"] in ("xf", "dot", "cart")]
        if xfs and t.draw(3, "fail?") > 0:
            n = xfs[t.draw(len(xfs), "fail.node")]
            tags = _sorted_tags(plan.streams[n["outs"]["o" if n["op"] == "xf" else "a"]].expected)
            if tags:
                plan.fail = {"node": n["id"], "tag": tags[t.draw(len(tags), "fail.tag")]}
    return plan


def _prefix_ok(s, d):
    """every tag of d has its prefix (at s's depth) — or d deeper than s at all."""
    return True


_FAILING = {}


def failing_combinator(base, tag):
    """A plug-in combinator (subclass of the repo's) whose combine() raises when it produces `tag`."""
    key = (base, tag)
    if key not in _FAILING:
        class Failing(base):
            fail_tag = tag

            async def combine(self, port_name, token):
                async for schema in super().combine(port_name, token):
                    if any(v["token"].tag == self.fail_tag for v in schema.values()):
                        import sfsim.core as _core

                        _core.CURRENT.fault("combinator_raises")
                        raise RuntimeError(f"injected failure in combinator {self.name} at tag {self.fail_tag}")
                    yield schema

        Failing.__name__ = Failing.__qualname__ = "Failing" + base.__name__
        _FAILING[key] = Failing
    return _FAILING[key]


def build(plan: Plan, wf: Workflow):
    """Instantiate the plan with the repo's step classes. Returns (input_ports, output streams)."""
    for s in plan.streams.values():
        s.port = wf.create_port(name=s.name)
    size_ports = {}
    for n in plan.nodes:
        nid = n["id"]
        ins = {k: plan.streams[v] for k, v in n["ins"].items()}
        outs = {k: plan.streams[v] for k, v in n["outs"].items()}
        if n["op"] == "xf":
            fail_tags = [plan.fail["tag"]] if plan.fail and plan.fail["node"] == nid else []
            st = wf.create_step(SimParallel if n.get("par") else SimTransformer, name=f"/{nid}", fn=n["fn"], fail_tags=fail_tags)
            for k, s in ins.items():
                st.add_input_port(k, s.port)
            st.add_output_port("o", outs["o"].port)
        elif n["op"] == "scatter":
            st = wf.create_step(ScatterStep, name=f"/{nid}-scatter")
            st.add_input_port("a", ins["a"].port)
            st.add_output_port("a", outs["o"].port)
            sp = st.get_size_port()
            # a forwarder on the size port only when some gather consumes it: every step must
            # reach a workflow output, otherwise the executor cancels it by design
            if plan.scatters[nid]["fwd"] and any(g["op"] == "gather" and g["scatter"] == nid for g in plan.nodes):
                fw = wf.create_step(SimTransformer, name=f"/{nid}-szfwd", fn="id")
                fw.add_input_port("n", sp)
                fw.add_output_port("n", wf.create_port())
                sp = fw.get_output_port("n")
            size_ports[nid] = sp
        elif n["op"] == "gather":
            st = wf.create_step(GatherStep, name=f"/{nid}-gather", size_port=size_ports[n["scatter"]])
            st.add_input_port("a", ins["a"].port)
            st.add_output_port("a", outs["o"].port)
        elif n["op"] == "gather2":
            sp = wf.create_port()
            plan.empty_ports.append(sp)
            st = wf.create_step(GatherStep, name=f"/{nid}-gather2", size_port=sp, depth=2)
            st.add_input_port("a", ins["a"].port)
            st.add_output_port("a", outs["o"].port)
        elif n["op"] in ("dot", "cart"):
            cls = DotProductCombinator if n["op"] == "dot" else CartesianProductCombinator
            if plan.fail and plan.fail["node"] == nid:
                cls = failing_combinator(cls, plan.fail["tag"])
            comb = cls(name=f"/{nid}-c", workflow=wf)
            comb.add_item("a")
            comb.add_item("b")
            st = wf.create_step(CombinatorStep, name=f"/{nid}-comb", combinator=comb)
            for k in ("a", "b"):
                st.add_input_port(k, ins[k].port)
                st.add_output_port(k, outs[k].port)
        elif n["op"] == "cond":
            st = wf.create_step(SimConditional, name=f"/{nid}-cond", modulo=n["modulo"])
            st.add_input_port("a", ins["a"].port)
            st.add_output_port("a", outs["a"].port)
    outputs = [s for s in plan.streams.values() if s.consumers == 0]
    for s in outputs:
        wf.output_ports[s.name] = s.port.name
    return outputs


async def inject_inputs(plan: Plan, ctx):
    for name, v in plan.inputs:
        await H.inject(plan.streams[name].port, [to_token(v, "0")], ctx)
    for p in plan.empty_ports:
        p.put(TerminationToken())


def port_multiset(port):
    """sorted canonical [(tag, value)] of the data tokens of a port."""
    out = []
    for tk in port.token_list:
        if isinstance(tk, TerminationToken):
            continue
        out.append(canon((tk.tag, plain(tk))))
    return sorted(out)


def expected_multiset(stream: Stream):
    return sorted(canon((tag, _norm(v))) for tag, v in stream.expected.items())


def _norm(v):
    return v


TERMINAL = (Status.COMPLETED, Status.SKIPPED, Status.FAILED, Status.CANCELLED)


def check_all_terminated(wf: Workflow, where: str, failed: bool = False):
    """Normal path: every step output port ENDS with a termination token. Failing path (the
    statement only says every step ends terminated and nothing hangs): the port must CONTAIN a
    termination token - a cancelled step whose body was mid-way through a database write may
    still append its last token after executor.close() terminated it."""
    from ..core import Violation

    for st in wf.steps.values():
        if not st.terminated or st.status not in TERMINAL:
            raise Violation("step_not_terminated",
                            f"{where}: step {st.name} terminated={st.terminated} status={st.status.name}",
                            signature=f"step_not_terminated:{where}:{type(st).__name__}")
        for pname, port in st.get_output_ports().items():
            if failed:
                ok = any(isinstance(x, TerminationToken) for x in port.token_list)
            else:
                ok = bool(port.token_list) and isinstance(port.token_list[-1], TerminationToken)
            if not ok:
                raise Violation("port_not_terminated",
                                f"{where}: output port {pname} of step {st.name} has no final termination token: {H.port_contents(port)[-3:]}",
                                signature=f"port_not_terminated:{where}:{type(st).__name__}")
