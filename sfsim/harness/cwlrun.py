"""Run StreamFlow's CWL front end (translator + executor, as `cwl-runner` does) under the simulator."""
from __future__ import annotations

import argparse
import contextlib
import io
import json
import os
import tempfile

from .. import seams

seams.install()

import streamflow.cwl.main as cwl_main
from streamflow.config.config import WorkflowConfig
from streamflow.config.validator import SfValidator
from streamflow.core.exception import WorkflowException
from streamflow.ext.utils import load_extensions
from streamflow.main import build_context

_loaded = False
import logging

# Seam (real time): cwl_utils kills its node process with a threading.Timer after 20 REAL seconds. On a loaded machine
# an expression evaluation can exceed that; the failure would then depend on the wall clock and not replay. The limit is
# raised to 150 s here and a kill by that timer ends the run as UNDECIDED (like an exhausted wall-clock cap).
import cwl_utils.sandboxjs as _sj

if not getattr(_sj.NodeJSEngine.exec_js_process, "_sfsim", False):
    _orig_exec_js = _sj.NodeJSEngine.exec_js_process

    def _exec_js_process(self, js_text, timeout=None, **kw):
        rc, out, err = _orig_exec_js(self, js_text, timeout=150.0, **kw)
        if rc == -1:
            # the node child was killed by the real-time timer: the machine, not the expression, was too slow;
            # the run is undecided (same path as an exhausted wall-clock cap), never a failure of the code under test
            from ..core import WallTimeout

            raise WallTimeout()
        return rc, out, err

    _exec_js_process._sfsim = True
    _sj.NodeJSEngine.exec_js_process = _exec_js_process

for _n in ("cwltool", "salad", "rdflib", "cwl_utils"):
    logging.getLogger(_n).setLevel(logging.CRITICAL)


_LAST_WORKFLOW = [None]


class _RecordingExecutor(cwl_main.StreamFlowExecutor):
    """The repo's executor, unchanged; only remembers the workflow so that the oracle can read the step statuses."""

    def __init__(self, workflow):
        super().__init__(workflow)
        _LAST_WORKFLOW[0] = workflow


cwl_main.StreamFlowExecutor = _RecordingExecutor


class CwlRun:
    def __init__(self):
        self.step_statuses = None   # {step name: status name} of the executed workflow (when it got that far)
        self.status = None       # "ok" | "failed"
        self.outputs = None
        self.error = None
        self.context = None
        self.name = None


async def run_cwl(sim, wf, jobfile, outdir, name, keep_context=False) -> CwlRun:
    """Same steps as streamflow.cwl.runner._async_main, with an in-memory database and scratch work directories."""
    global _loaded
    if not _loaded:
        load_extensions()
        _loaded = True
    res = CwlRun()
    res.name = name
    os.makedirs(outdir, exist_ok=True)
    tmp = os.path.join(sim.scratch, "tmp-" + name)
    os.makedirs(tmp, exist_ok=True)
    config = {"version": "v1.0", "workflows": {"cwl-workflow": {"type": "cwl", "config": {"file": wf, "settings": jobfile}}},
              "database": {"type": "default", "config": {"connection": ":memory:"}}}
    SfValidator().validate(config)
    config["path"] = os.path.join(sim.scratch, "streamflow.yml")
    workflow_config = WorkflowConfig("cwl-workflow", config)
    old_tmp = tempfile.tempdir
    tempfile.tempdir = tmp
    context = build_context(config)
    args = argparse.Namespace(name=name, outdir=outdir, validate=False)
    buf = io.StringIO()
    try:
        try:
            with contextlib.redirect_stdout(buf):
                await cwl_main.main(workflow_config=workflow_config, context=context, args=args)
            res.status = "ok"
            res.outputs = json.loads(buf.getvalue())
        except WorkflowException as e:
            res.status = "failed"
            res.error = f"{type(e).__name__}: {e}"[:500]
        except Exception as e:
            from ..core import repo_frame_of

            # the runner's main() catches every Exception and exits 1: a failure for the user all the same
            res.status = "failed"
            res.error = f"{type(e).__name__} at {repo_frame_of(e.__traceback__)}: {e}"[:500]
    finally:
        wf_obj, _LAST_WORKFLOW[0] = _LAST_WORKFLOW[0], None
        if wf_obj is not None:
            res.step_statuses = {n: st.status.name for n, st in wf_obj.steps.items()}
        tempfile.tempdir = old_tmp
        if keep_context and res.status == "ok":
            res.context = context
        else:
            await context.close()
    return res
