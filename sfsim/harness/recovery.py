"""H5 (DESIGN.md §3): recovery harness — workflows of schedule/transfer/execute pipelines whose
commands write real files, a fault plan keyed by (phase, job, attempt), and an event log."""
from __future__ import annotations

import asyncio
import builtins
import os
import posixpath
import shutil
from collections import Counter

from .. import core
from ..core import Violation
from . import engine as H

from streamflow.core.config import BindingConfig
from streamflow.core.deployment import DeploymentConfig, Target
from streamflow.core.exception import WorkflowExecutionException
from streamflow.core.processor import CommandOutputProcessor
from streamflow.core.utils import get_tag
from streamflow.core.workflow import Command, CommandOutput, Status, Token, Workflow
from streamflow.recovery import failure_manager_classes
from streamflow.recovery.failure_manager import RollbackFailureManager
from streamflow.workflow.executor import StreamFlowExecutor
from streamflow.workflow.step import DeployStep, ExecuteStep, GatherStep, ScatterStep, ScheduleStep, TransferStep
from streamflow.workflow.token import FileToken, ListToken, ObjectToken, TerminationToken
import streamflow.recovery.failure_manager as fm_mod


def _sim_id(obj):
    sim = core.CURRENT
    if sim is None:
        return builtins.id(obj)
    key = builtins.id(obj)
    v = sim.ids.get(key)
    if v is None:
        sim.id_counter += 1
        # seed-chosen rank: the order in which recoveries take the per-request locks
        v = sim.ids[key] = (sim.tape.draw(64, "recovery.lock.rank") * 4096 + sim.id_counter, obj)
    return v[0]


fm_mod.id = _sim_id


class LoggingRollbackFailureManager(RollbackFailureManager):
    """The real manager; recover() only adds an event-log line."""

    async def recover(self, job, step, exception):
        sim = core.CURRENT
        sim.log("RECOVER_CALL", job.name, step.name)
        sim.probe("recover_calls")
        if not isinstance(exception, WorkflowExecutionException) and not getattr(exception, "_sfsim_injected", False):
            # injected faults and missing inputs are WorkflowExecutionExceptions; anything else was raised by
            # repo/harness code tripping over state another recovery changed under it (probe only: not in the digest)
            sim.probe("recover_unexpected:" + type(exception).__name__)
        ctl = sim.info["rec"]
        ctl.active_recoveries += 1
        if ctl.active_recoveries > 1:
            sim.probe("recoveries_overlapped")
        try:
            return await super().recover(job, step, exception)
        finally:
            ctl.active_recoveries -= 1


failure_manager_classes["simrollback"] = LoggingRollbackFailureManager


class SimFileToken(FileToken):
    async def get_paths(self, context):
        return [self.value]


def injected_exception(fault, where):
    """The exception an injected failure raises: a WorkflowExecutionException by default; fault["exc"] selects another type
    a real deployment produces (a command or connection that times out, an OS-level error, any other error)."""
    kind = fault.get("exc", "wfe")
    if kind == "timeout":
        e = asyncio.TimeoutError(f"Injected timeout into {where}")
    elif kind == "oserror":
        e = ConnectionResetError(f"Injected connection error into {where}")
    elif kind == "runtime":
        e = RuntimeError(f"Injected error into {where}")
    else:
        e = WorkflowExecutionException(f"Injected error into {where}")
    e._sfsim_injected = True
    return e


class Ctl:
    """Per-run controller: counters, fault plan, bookkeeping of what was lost."""

    def __init__(self, sim, faults):
        self.sim = sim
        self.faults = faults            # (phase, job) -> [fault, ...]; fault = {"kind": soft|stop, "lose": [job names]}
        self.count = Counter()          # (phase, job) -> invocations
        self.execs = Counter()          # job -> started executions of the command
        self.completed = Counter()      # job -> completed executions
        self.outdirs = {}               # job -> output directory of its last completed execution
        self.lost_jobs = []             # (step seq, failing job, [jobs whose outputs were destroyed])
        self.active_recoveries = 0
        self.fail_events = []           # (seq, job, phase, kind)
        self.writable = True            # how SimTransferStep stages inputs (False: read-only copies, related to their source)

    def next_fault(self, phase, job):
        key = (phase, job)
        self.count[key] += 1
        plan = self.faults.get(key, [])
        n = self.count[key]
        return plan[n - 1] if n <= len(plan) else None

    def apply(self, fault, phase, job):
        sim = self.sim
        sim.fault(f"{phase}.{fault['kind']}")
        self.fail_events.append((sim.loop.steps, job.name, phase, fault["kind"]))
        sim.log("FAIL", job.name, phase, fault["kind"])
        if fault["kind"] == "stop":
            lost = []
            for d in (job.input_directory, job.output_directory, job.tmp_directory):
                if d and os.path.isdir(d) and d.startswith(sim.scratch):
                    shutil.rmtree(d, ignore_errors=True)
            lost_jobs = []
            for other in fault.get("lose", []):
                d = self.outdirs.get(other)
                if d and os.path.isdir(d):
                    shutil.rmtree(d, ignore_errors=True)
                    lost_jobs.append(other)
            self.lost_jobs.append((sim.loop.steps, job.name, lost_jobs))
            sim.log("DATA_LOST", job.name, tuple(lost_jobs))
            if lost_jobs:
                sim.fault("ancestor_outputs_destroyed")


def ctl() -> Ctl:
    return core.CURRENT.info["rec"]


def _content_of(token):
    if isinstance(token, ListToken):
        return [_content_of(t) for t in token.value]
    if isinstance(token, ObjectToken):
        return {k: _content_of(v) for k, v in token.value.items()}
    if isinstance(token, FileToken):
        p = token.value
        if os.path.isdir(p):
            p = os.path.join(p, "data.txt")     # a directory output: its content is the file inside
        with open(p) as f:
            return f.read()
    return token.value


def compute(step_name, tag, parts):
    return f"{step_name}[{tag}]({H.canon(parts)})"


class SimCommand(Command):
    """Reads its inputs (file contents), writes `out_kind` outputs into the job's output directory."""

    def __init__(self, step, out_kind="file", width=0):
        super().__init__(step)
        self.out_kind = out_kind
        self.width = width

    @classmethod
    async def _load(cls, row, loading_context, step):
        return cls(step=step, out_kind=row["out_kind"], width=row["width"])

    async def _save_additional_params(self, database):
        return {"out_kind": self.out_kind, "width": self.width}

    async def execute(self, job):
        sim = core.CURRENT
        c = ctl()
        c.execs[job.name] += 1
        n = c.execs[job.name]
        sim.log("EXEC_START", job.name, n)
        await sim.io("job", job.name)
        fault = c.next_fault("execute", job.name)
        if fault is not None:
            c.apply(fault, "execute", job)
            sim.log("EXEC_END", job.name, n, "FAILED")
            if fault.get("exc", "wfe") != "wfe":
                raise injected_exception(fault, f"the command of {job.name}")   # e.g. connector.run(timeout=...) timing out
            return CommandOutput("Injected failure", Status.FAILED)
        tag = get_tag(job.inputs.values())
        try:
            parts = {k: _content_of(job.inputs[k]) for k in sorted(job.inputs)}
        except FileNotFoundError as e:
            sim.log("EXEC_END", job.name, n, "INPUT_MISSING")
            raise WorkflowExecutionException(f"Job {job.name} input does not exist: {e}")
        base = compute(self.step.name, tag, parts)
        os.makedirs(job.output_directory, exist_ok=True)
        # unique per step and tag: several inputs of one job are staged into the same directory
        safe = self.step.name.strip("/").replace("/", "_") + "-" + tag.replace(".", "_")
        if self.out_kind == "file":
            path = os.path.join(job.output_directory, f"out-{safe}.txt")
            with open(path, "w") as f:
                f.write(base)
            value = path
        elif self.out_kind == "dir":
            path = os.path.join(job.output_directory, f"out-{safe}.d")
            os.makedirs(path, exist_ok=True)
            with open(os.path.join(path, "data.txt"), "w") as f:
                f.write(base)
            value = path
        elif self.out_kind == "list":
            value = []
            for i in range(self.width):
                path = os.path.join(job.output_directory, f"out-{safe}-{i}.txt")
                with open(path, "w") as f:
                    f.write(f"{base}#{i}")
                value.append(path)
        else:
            value = base
        await sim.io("job.done", job.name)
        c.completed[job.name] += 1
        c.outdirs[job.name] = job.output_directory
        sim.log("EXEC_END", job.name, n, "COMPLETED")
        return CommandOutput(value, Status.COMPLETED)


class SimOutputProcessor(CommandOutputProcessor):
    def __init__(self, name, workflow, target=None, out_kind="file"):
        super().__init__(name, workflow, target)
        self.out_kind = out_kind

    @classmethod
    async def _load(cls, row, loading_context):
        return cls(name=row["name"], workflow=await loading_context.load_workflow(row["workflow"]), out_kind=row["out_kind"])

    async def _save_additional_params(self, database):
        return (await super()._save_additional_params(database)) | {"out_kind": self.out_kind}

    def _file(self, job, path, tag, recoverable):
        context = self.workflow.context
        loc = context.scheduler.get_locations(job.name)[0]
        context.data_manager.register_path(location=loc, path=path, relpath=os.path.relpath(path, job.output_directory))
        return SimFileToken(tag=tag, value=path, recoverable=recoverable)

    async def process(self, job, command_output, connector=None, recoverable=False):
        value = (await command_output).value
        tag = get_tag(job.inputs.values())
        if self.out_kind in ("file", "dir"):
            return self._file(job, value, tag, recoverable)
        if self.out_kind == "list":
            return ListToken(tag=tag, value=[self._file(job, p, tag, recoverable) for p in value])
        return Token(tag=tag, value=value, recoverable=recoverable)


class SimScheduleStep(ScheduleStep):
    async def _set_job_directories(self, connector, locations, job):
        fault = ctl().next_fault("schedule", job.name)
        if fault is not None:
            ctl().apply(fault, "schedule", job)
            raise injected_exception(fault, f"{self.name} step")
        await super()._set_job_directories(connector, locations, job)


class SimTransferStep(TransferStep):
    async def _transfer_path(self, job, path):
        context = self.workflow.context
        dst_connector = context.scheduler.get_connector(job.name)
        dst_locations = context.scheduler.get_locations(job.name)
        src = await context.data_manager.get_source_location(path=path, dst_deployment=dst_connector.deployment_name)
        if src is None:
            raise WorkflowExecutionException(f"Job {job.name} input does not exist: File {path}")
        dst_path = os.path.join(job.input_directory, src.relpath)
        await core.CURRENT.io("transfer", job.name)
        await context.data_manager.transfer_data(src_location=src.location, src_path=src.path, dst_locations=dst_locations,
                                                 dst_path=dst_path, writable=ctl().writable)
        return dst_path

    async def _move(self, job, token):
        if isinstance(token, ListToken):
            return token.update([await self._move(job, t) for t in token.value])
        if isinstance(token, FileToken):
            new = token.update(await self._transfer_path(job, token.value))
            new.recoverable = False
            return new
        new = token.update(token.value)
        new.recoverable = False
        return new

    async def transfer(self, job, token):
        fault = ctl().next_fault("transfer", job.name)
        if fault is not None:
            ctl().apply(fault, "transfer", job)
            raise injected_exception(fault, f"{self.name} step")
        return await self._move(job, token)


# ---- workflow builder ------------------------------------------------------------------------------

class Builder:
    def __init__(self, sim, ctx, wf):
        self.sim, self.ctx, self.wf = sim, ctx, wf
        self.workdir = os.path.join(sim.scratch, "wd")
        os.makedirs(self.workdir, exist_ok=True)
        self.cfg = DeploymentConfig(name="simlocal", type="local", config={}, external=True, lazy=False, workdir=self.workdir)
        self.deploy = wf.create_step(DeployStep, name="/__deploy__/simlocal", deployment_config=self.cfg)
        self.static = []   # (step name, [input stream names], out kind) for the reference
        self.cfg2 = self.deploy2 = None

    def second_site(self):
        """A second deployment (own work directory): data moved to it is a replica of the copy on the first one."""
        if self.cfg2 is None:
            wd2 = os.path.join(self.sim.scratch, "wd-site-b")
            os.makedirs(wd2, exist_ok=True)
            self.cfg2 = DeploymentConfig(name="simlocal-b", type="local", config={}, external=True, lazy=False, workdir=wd2)
            self.deploy2 = self.wf.create_step(DeployStep, name="/__deploy__/simlocal-b", deployment_config=self.cfg2)
        return self.cfg2, self.deploy2

    def exec_step(self, name, inputs: dict, out_kind="file", width=0, site_b=False, transfer=True, union=False):
        wf = self.wf
        cfg, deploy, workdir = self.cfg, self.deploy, self.workdir
        if site_b:
            cfg, deploy = self.second_site()
            workdir = cfg.workdir
        binding = BindingConfig(targets=[Target(deployment=cfg, workdir=workdir)])
        sched = wf.create_step(SimScheduleStep, name=posixpath.join(name, "__schedule__"), job_prefix=name,
                               connector_ports={cfg.name: deploy.get_output_port()}, binding_config=binding)
        ex = wf.create_step(ExecuteStep, name=name, job_port=sched.get_output_port())
        ex.command = SimCommand(ex, out_kind=out_kind, width=width)
        for key, port in inputs.items():
            sched.add_input_port(key, port)
            if not transfer:
                # inputs wired straight into the execute step (no staging): they keep flowing whatever happens to the job port
                ex.add_input_port(key, port)
                continue
            tr = wf.create_step(SimTransferStep, name=posixpath.join(name, "__transfer__", key), job_port=sched.get_output_port())
            tr.add_input_port(key, port)
            tr.add_output_port(key, wf.create_port())
            ex.add_input_port(key, tr.get_output_port(key))
        out = wf.create_port()
        proc = SimOutputProcessor("out", wf, out_kind=out_kind)
        if union:
            # what the CWL translator installs for union output types
            from streamflow.core.processor import UnionCommandOutputProcessor

            proc = UnionCommandOutputProcessor("out", wf, processors=[proc])
        ex.add_output_port("out", out, proc)
        return out

    def scatter(self, name, port):
        sc = self.wf.create_step(ScatterStep, name=name + "-scatter")
        sc.add_input_port("x", port)
        sc.add_output_port("x", self.wf.create_port())
        return sc.get_output_port("x"), sc.get_size_port()

    def gather(self, name, port, size_port):
        g = self.wf.create_step(GatherStep, name=name + "-gather", size_port=size_port)
        g.add_input_port("x", port)
        g.add_output_port("x", self.wf.create_port())
        return g.get_output_port("x")

    async def input_files(self, port, n_or_none):
        """Inject the workflow input: one file token, or a list of n file tokens."""
        ind = os.path.join(self.sim.scratch, "inputs")
        os.makedirs(ind, exist_ok=True)
        await self.ctx.deployment_manager.deploy(self.cfg)
        loc = next(iter((await self.ctx.deployment_manager.get_connector("simlocal").get_available_locations()).values())).location

        def mk(i):
            p = os.path.join(ind, f"in-{i}.txt")
            with open(p, "w") as f:
                f.write(f"input{i}")
            self.ctx.data_manager.register_path(location=loc, path=p, relpath=os.path.basename(p))
            return SimFileToken(value=p, tag="0", recoverable=True)

        tok = mk(0) if n_or_none is None else ListToken([mk(i) for i in range(n_or_none)], tag="0")
        await tok.save(self.ctx.database, port_id=port.persistent_id)
        port.put(tok)
        port.put(TerminationToken())
        return "input0" if n_or_none is None else [f"input{i}" for i in range(n_or_none)]


def read_output(port):
    out = []
    for t in port.token_list:
        if isinstance(t, TerminationToken):
            continue
        out.append((t.tag, _content_of(t)))
    return out
