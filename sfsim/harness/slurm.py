"""H4: an in-process model of a Slurm cluster in virtual time (sbatch/squeue/scontrol/cat/scancel),
used as the inner connector of the real SlurmConnector; plus the TTL-cache seam."""
from __future__ import annotations

import asyncio
import base64
import re

from .. import core
from . import sched  # noqa: F401  (SimConnector base helpers)

from streamflow.core.deployment import Connector
from streamflow.core.scheduling import AvailableLocation
import streamflow.deployment.connector.queue_manager as qm


class SimTTLCache:
    """Same contract the repo and cachebox.cached use (getitem/setitem/clear/pop), expiry on the
    simulator's clock (cachebox's TTLCache reads the OS clock inside Rust)."""

    def __init__(self, maxsize=0, global_ttl=None, **kw):
        self.ttl = global_ttl
        self.data = {}

    def _now(self):
        s = core.CURRENT
        return s.loop.time() if s is not None else 0.0

    def __getitem__(self, key):
        v, exp = self.data[key]
        if exp is not None and self._now() >= exp:
            del self.data[key]
            if core.CURRENT is not None:
                core.CURRENT.probe("ttl_cache_expired")
            raise KeyError(key)
        if core.CURRENT is not None:
            core.CURRENT.probe("ttl_cache_hit")
        return v

    def __setitem__(self, key, value):
        self.data[key] = (value, None if self.ttl is None else self._now() + self.ttl)

    def __contains__(self, key):
        try:
            self[key]
            return True
        except KeyError:
            return False

    def pop(self, key, default=None):
        v = self.data.pop(key, None)
        return v[0] if v else default

    def clear(self, reuse=False):
        self.data.clear()

    def __len__(self):
        return len(self.data)


qm.TTLCache = SimTTLCache


class SimSlurmHost(Connector):
    def __init__(self, deployment_name, config_dir, table=None, transferBufferSize=2 ** 16, **kw):
        super().__init__(deployment_name, config_dir, transferBufferSize)
        self.table = table or {}   # k -> {"pending": s, "runtime": s, "rc": int}
        self.jobs = {}             # id -> dict(k, submit, start, finish, cancelled)
        self.next_id = 100
        self.log = []

    @classmethod
    def get_schema(cls):
        return "{}"

    async def deploy(self, external):
        pass

    async def undeploy(self, external):
        pass

    async def get_available_locations(self, service=None):
        return {"login": AvailableLocation(name="login", deployment=self.deployment_name, hostname="login", service=service, slots=1)}

    def _state(self, jid, now):
        j = self.jobs[jid]
        if j["cancelled"] is not None and j["cancelled"] < j["finish"]:
            return "CANCELLED" if now >= j["cancelled"] else ("PENDING" if now < j["start"] else "RUNNING")
        if now < j["start"]:
            return "PENDING"
        if now < j["finish"]:
            return "RUNNING"
        return "COMPLETED"

    async def run(self, location, command, environment=None, workdir=None, stdin=None,
                  stdout=asyncio.subprocess.STDOUT, stderr=asyncio.subprocess.STDOUT,
                  capture_output=False, timeout=None, job_name=None):
        sim = core.CURRENT
        await sim.io("ssh", "login")
        now = sim.loop.time()
        cmd = " ".join(str(c) for c in command)
        if "sbatch" in command:
            script = base64.b64decode(command[1]).decode()
            m = re.search(r"simjob (\d+)", script)
            if not m:
                return ("sbatch: error: unknown job script", 1)
            k = int(m.group(1))
            spec = self.table[k]
            self.next_id += 1 + sim.tape.draw(3, "jobid.gap")
            jid = str(self.next_id)
            self.jobs[jid] = {"k": k, "submit": now, "start": now + spec["pending"], "finish": now + spec["pending"] + spec["runtime"],
                              "cancelled": None, "script": script}
            self.log.append(("sbatch", now, jid, k))
            sim.log("SBATCH", jid, k, now)
            return (jid, 0)
        if command[0] == "squeue":
            ids = command[command.index("-j") + 1].split(",") if "-j" in command else []
            out = [i for i in ids if i in self.jobs and self._state(i, now) in ("PENDING", "RUNNING")]
            self.log.append(("squeue", now, tuple(ids), tuple(out)))
            sim.probe("squeue_calls")
            return ("\n".join(out) + ("\n" if out else ""), 0)
        if command[0] == "scontrol":
            jid = command[4]
            j = self.jobs.get(jid)
            if j is None:
                return ("", 1)
            st = self._state(jid, now)
            self.log.append(("fetch", now, jid, sim.loop.steps))
            rc = self.table[j["k"]]["rc"] if st == "COMPLETED" else 0
            line = f"JobId={jid} JobName=sf JobState={st} ExitCode={rc}:0 StdOut=/cluster/out/slurm-{jid}.out WorkDir=/x"
            if "StdOut" in cmd:
                return ("/cluster/out/slurm-%s.out" % jid, 0)
            return (str(rc), 0)
        if command[0] == "cat":
            m = re.search(r"slurm-(\d+)\.out", cmd)
            jid = m.group(1) if m else None
            if jid in self.jobs and self._state(jid, now) == "COMPLETED":
                return (f"output-of-{self.jobs[jid]['k']}\n", 0)
            return ("", 0)
        if command[0] == "scancel":
            ids = " ".join(command[1:]).split()
            for i in ids:
                if i in self.jobs and self.jobs[i]["cancelled"] is None:
                    self.jobs[i]["cancelled"] = now
            self.log.append(("scancel", now, tuple(ids)))
            sim.log("SCANCEL", tuple(ids), now)
            return ("", 0) if capture_output else None
        return ("", 0) if capture_output else None

    async def copy_local_to_remote(self, *a, **k):
        pass

    async def copy_remote_to_local(self, *a, **k):
        pass

    async def copy_remote_to_remote(self, *a, **k):
        pass

    async def get_shell(self, command, location):
        raise NotImplementedError

    async def get_stream_reader(self, command, location):
        raise NotImplementedError

    async def get_stream_writer(self, command, location):
        raise NotImplementedError
