"""Simulated byte streams (DESIGN.md §1.2 item 3, §1.3): how a byte stream is cut into reads is
a schedule dimension. SimReader delivers a byte string in seed-chosen chunks with simulated
latency, optionally truncated / corrupted; SimWriter collects bytes, optionally failing."""
from __future__ import annotations

import os
import stat

from .. import core
from streamflow.core.data import StreamWrapper

POLICIES = ("1", "7", "511", "512", "513", "4096", "large", "random", "block_boundary")


class SimReader(StreamWrapper):
    def __init__(self, data: bytes, policy: str, tape, name="reader"):
        super().__init__(None)
        self.data = data
        self.pos = 0
        self.policy = policy
        self.tape = tape
        self.name = name
        self.reads = 0
        self.closed = False

    def _chunk(self, want):
        p = self.policy
        if p == "large":
            n = want
        elif p == "random":
            n = 1 + self.tape.draw(min(want, 9000), "chunk")
        elif p == "block_boundary":
            n = 512 - (self.pos % 512) or 512
        else:
            n = int(p)
        return max(1, min(n, want))

    async def read(self, size=None):
        sim = core.CURRENT
        self.reads += 1
        if self.pos >= len(self.data):
            return b""  # EOF: like asyncio.StreamReader, returns at once
        if sim is not None:
            await sim.io("stream.read", self.name)
        want = len(self.data) - self.pos if size is None or size < 0 else size
        n = min(self._chunk(want), len(self.data) - self.pos)
        buf = self.data[self.pos:self.pos + n]
        self.pos += n
        return buf

    async def write(self, data):
        raise NotImplementedError

    async def close(self):
        self.closed = True


class SimWriter(StreamWrapper):
    def __init__(self, name="writer", fail_after=None):
        super().__init__(None)
        self.buf = bytearray()
        self.name = name
        self.fail_after = fail_after
        self.closed = False

    async def write(self, data):
        sim = core.CURRENT
        if sim is not None:
            await sim.io("stream.write", self.name)
        if self.fail_after is not None and len(self.buf) + len(data) > self.fail_after:
            self.buf += data[: max(0, self.fail_after - len(self.buf))]
            sim.fault("broken_pipe")
            raise BrokenPipeError("injected EPIPE")
        self.buf += data

    async def read(self, size=None):
        raise NotImplementedError

    async def close(self):
        self.closed = True


# ---- file trees ---------------------------------------------------------------------------------

def make_tree(root, t, big=False, hostile=True):
    """Create a random tree under root/<top>; returns (top name, spec) where spec maps relative
    path -> ('file', bytes, mode) | ('dir',) | ('link', target)."""
    names = ["a.txt", "empty", "sub", "with space", "x" * 120 + ".bin", "q'uote\"d", "ünï.dat", "-dash"] if hostile else ["a.txt", "empty", "sub", "b.bin"]
    kind = t.draw(4, "tree.kind")
    top = ("d", "dir with space", "f.txt", "t" * 101)[t.draw(4, "tree.top")] if hostile else ("d", "f.txt")[t.draw(2, "tree.top")]
    spec = {}
    base = os.path.join(root, top)

    def content(i):
        size = (0, 1, 511, 512, 513, 1500, 9000, 70000 if big else 3000)[t.draw(8, "file.size")]
        seedb = bytes([(i * 37 + k) % 251 for k in range(min(size, 997))])
        return (seedb * (size // max(1, len(seedb)) + 1))[:size] if size else b""

    if kind == 0 or top == "f.txt":
        data = content(0)
        mode = (0o644, 0o755)[t.draw(2, "mode")]
        with open(base, "wb") as f:
            f.write(data)
        os.chmod(base, mode)
        spec[""] = ("file", data, mode)
        return top, spec
    os.makedirs(base)
    spec[""] = ("dir",)
    n = t.draw(9 if not big else 30, "tree.n")
    dirs = [""]
    for i in range(n):
        parent = dirs[t.draw(len(dirs), "parent")]
        nm = names[t.draw(len(names), "name")] + (str(i) if t.draw(2, "uniq") else "")
        rel = os.path.join(parent, nm) if parent else nm
        if rel in spec:
            continue
        what = t.draw(6, "entry")
        p = os.path.join(base, rel)
        if what == 0:
            os.makedirs(p)
            spec[rel] = ("dir",)
            dirs.append(rel)
        elif what == 1 and any(v[0] == "file" for v in spec.values()):
            files = [k for k, v in spec.items() if v[0] == "file"]
            target = files[t.draw(len(files), "link.target")]
            os.symlink(os.path.relpath(os.path.join(base, target), os.path.dirname(p)), p)
            spec[rel] = ("link", target)
        else:
            data = content(i + 1)
            mode = (0o644, 0o755, 0o600)[t.draw(3, "mode")]
            with open(p, "wb") as f:
                f.write(data)
            os.chmod(p, mode)
            spec[rel] = ("file", data, mode)
    return top, spec


def expected_files(spec):
    """{relative path: (bytes, exec bit) | 'dir'} after a dereferencing copy."""
    out = {}
    for rel, v in spec.items():
        if v[0] == "dir":
            out[rel] = "dir"
        elif v[0] == "file":
            out[rel] = (v[1], bool(v[2] & 0o100))
        else:
            tgt = spec[v[1]]
            out[rel] = (tgt[1], bool(tgt[2] & 0o100))
    return out


def read_tree(path):
    out = {}
    if os.path.isfile(path):
        st = os.stat(path)
        with open(path, "rb") as f:
            out[""] = (f.read(), bool(st.st_mode & 0o100))
        return out
    if not os.path.isdir(path):
        return out
    out[""] = "dir"
    for dirpath, dirnames, filenames in os.walk(path):
        for d in dirnames:
            full = os.path.join(dirpath, d)
            rel = os.path.relpath(full, path)
            if os.path.islink(full):
                if os.path.isdir(full):
                    out[rel] = "dir"
            else:
                out[rel] = "dir"
        for fn in filenames:
            full = os.path.join(dirpath, fn)
            rel = os.path.relpath(full, path)
            try:
                st = os.stat(full)
                with open(full, "rb") as f:
                    out[rel] = (f.read(), bool(st.st_mode & 0o100))
            except OSError:
                out[rel] = ("<dangling>", False)
    return out


def diff_trees(want, got):
    for k in want:
        if k not in got:
            return f"missing {k!r}"
        if want[k] == "dir" or got[k] == "dir":
            if want[k] != got[k]:
                return f"{k!r}: kind differs"
            continue
        if want[k][0] != got[k][0]:
            return f"{k!r}: content differs ({len(got[k][0])} bytes instead of {len(want[k][0])})"
        if want[k][1] != got[k][1]:
            return f"{k!r}: executable bit differs"
    for k in got:
        if k not in want:
            return f"unexpected {k!r}"
    return None
