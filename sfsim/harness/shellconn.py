"""SimShellConnector: a shell-based remote deployment for the simulator.

A subclass of the repo's BaseConnector in the style of its SSH / container connectors: every
command is a string handed to a remote `sh` (persistent shell first, one-shot `sh -c` as the
fallback), data moves through tar streams over the process pipes.  Everything BaseConnector
implements is used unchanged (get_shell / SubprocessShell / BaseShell framing, the stream wrapper
context managers, copy_local_to_remote / copy_remote_to_local / copy_remote_to_remote,
undeploy); only the transport - "how do I start a process on location L" - is ours, and it goes
through the simproc seam.  Each location is a private directory bind-mounted on one common path
in a private mount namespace, so the same absolute path is a different file on each location.
"""
from __future__ import annotations

import asyncio
import contextlib
import os

from .. import core, seams, simproc

seams.install()

from streamflow.core import utils
from streamflow.core.deployment import ExecutionLocation
from streamflow.core.exception import WorkflowExecutionException
from streamflow.core.scheduling import AvailableLocation, Hardware, Storage
from streamflow.deployment.connector import connector_classes
from streamflow.deployment.connector.base import (
    BaseConnector,
    SubprocessShell,
    SubprocessStreamReaderWrapperContextManager,
    SubprocessStreamWriterWrapperContextManager,
)


def setup_remote(sim):
    """Create the common mount point; decide whether namespaces are usable."""
    if "remote_mnt" not in sim.info:
        base = os.path.dirname(sim.scratch)
        mnt = os.path.join(base, "remote")
        os.makedirs(mnt, exist_ok=True)
        sim.info["remote_mnt"] = mnt
        sim.info["remote_ns"] = simproc.ns_available()
        sim.probe("remote.namespaces" if sim.info["remote_ns"] else "remote.no_namespaces")
    return sim.info["remote_mnt"]


class SimShellConnector(BaseConnector):
    def __init__(self, deployment_name, config_dir, locations=None, transferBufferSize=2 ** 16, use_shell=True,
                 cores=4.0, memory=4096.0, **kw):
        super().__init__(deployment_name, config_dir, transferBufferSize)
        self.sim = core.CURRENT
        self.mnt = setup_remote(self.sim)
        self.loc_names = list(locations or ["node-0"])
        self.roots = {}
        for n in self.loc_names:
            r = os.path.join(self.sim.scratch, "remote-roots", deployment_name, n)
            os.makedirs(r, exist_ok=True)
            self.roots[n] = r
        self.use_shell = use_shell
        self.cores = cores
        self.memory = memory
        self.commands = []     # (location, kind, command string)

    @classmethod
    def get_schema(cls):
        return "{}"

    # ---- where things are -------------------------------------------------------------------
    def visible_root(self, name):
        """Path prefix under which location `name` sees its own files."""
        return self.mnt if self.sim.info["remote_ns"] else self.roots[name]

    def real_path(self, name, path):
        """Where the oracle finds, on the host, the file that location `name` calls `path`."""
        vr = self.visible_root(name)
        if path == vr or path.startswith(vr + os.sep):
            return os.path.join(self.roots[name], os.path.relpath(path, vr)) if path != vr else self.roots[name]
        return path

    def _prefix(self, location):
        return [simproc.EXEC_TAG, self.roots[location.name], "--"]

    # ---- transport ----------------------------------------------------------------------------
    async def _create_shell(self, command, location):
        process = await asyncio.create_subprocess_exec(
            *self._prefix(location), *command,
            stdin=asyncio.subprocess.PIPE, stdout=asyncio.subprocess.PIPE, stderr=asyncio.subprocess.DEVNULL)
        return SubprocessShell(command=command, buffer_size=self.transferBufferSize, process=process)

    async def get_stream_reader(self, command, location):
        self.commands.append((location.name, "reader", " ".join(command)))
        return SubprocessStreamReaderWrapperContextManager(
            coro=asyncio.create_subprocess_exec(
                *self._prefix(location), "sh", "-c", " ".join(command),
                stdin=asyncio.subprocess.DEVNULL, stdout=asyncio.subprocess.PIPE, stderr=asyncio.subprocess.PIPE))

    async def get_stream_writer(self, command, location):
        self.commands.append((location.name, "writer", " ".join(command)))
        return SubprocessStreamWriterWrapperContextManager(
            coro=asyncio.create_subprocess_exec(
                *self._prefix(location), "sh", "-c", " ".join(command),
                stdin=asyncio.subprocess.PIPE, stdout=asyncio.subprocess.DEVNULL, stderr=asyncio.subprocess.DEVNULL))

    async def run(self, location, command, environment=None, workdir=None, stdin=None,
                  stdout=asyncio.subprocess.STDOUT, stderr=asyncio.subprocess.STDOUT,
                  capture_output=False, timeout=None, job_name=None):
        # same structure as the repo's SSH / container connectors
        self.commands.append((location.name, "run", " ".join(command)))
        if self.use_shell and job_name is None and stdin is None:
            with contextlib.suppress(WorkflowExecutionException):
                return await utils.run_in_shell(
                    shell=await self.get_shell(command=["sh"], location=location),
                    location=location, command=command, environment=environment, workdir=workdir,
                    capture_output=capture_output, timeout=timeout)
        cmd = utils.create_command(self.__class__.__name__, command, environment, workdir, stdin, stdout, stderr)
        import shlex

        return await utils.run_in_subprocess(
            location=location,
            command=[*self._prefix(location), "sh", "-c", shlex.quote(cmd)],
            capture_output=capture_output, timeout=timeout)

    # ---- lifecycle --------------------------------------------------------------------------------
    async def deploy(self, external):
        await self.sim.io("deploy", self.deployment_name)

    async def get_available_locations(self, service=None):
        out = {}
        for n in self.loc_names:
            out[n] = AvailableLocation(
                name=n, deployment=self.deployment_name, service=service, hostname=n, slots=None,
                hardware=Hardware(cores=self.cores, memory=self.memory,
                                  storage={"/": Storage(mount_point="/", size=1e6)}))
        return out

    def location(self, name):
        return ExecutionLocation(name=name, deployment=self.deployment_name, hostname=name, local=False)


connector_classes["simshell"] = SimShellConnector
