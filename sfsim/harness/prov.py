"""C07 oracle: read the whole token / provenance tables straight from the sqlite3 engine and
compare with what each step consumed (derived from the tokens on the ports)."""
from __future__ import annotations

from ..core import Violation
from .engine import raw_db

from streamflow.workflow.step import (
    CombinatorStep,
    ConditionalStep,
    GatherStep,
    ScatterStep,
    Transformer,
)
from streamflow.workflow.combinator import CartesianProductCombinator, DotProductCombinator
from streamflow.workflow.token import TerminationToken


def read_tables(ctx):
    db = raw_db(ctx)
    toks = {r[0]: {"port": r[1], "type": r[2], "tag": r[3]} for r in db.execute("SELECT id, port, type, tag FROM token")}
    prov = {}
    for dependee, depender in db.execute("SELECT dependee, depender FROM provenance"):
        prov.setdefault(depender, set()).add(dependee)
    return toks, prov


def _data(port):
    return [t for t in port.token_list if not isinstance(t, TerminationToken)]


def _is_prefix(a, b):
    la, lb = a.split("."), b.split(".")
    return lb[: len(la)] == la


def expected_dependees(step, out_name, tok):
    """Tokens the step consumed to emit ``tok`` on output ``out_name`` (or None = not modelled)."""
    ins = step.get_input_ports()
    T = tok.tag
    from .engine import SimParallel

    if isinstance(step, (Transformer, ConditionalStep, SimParallel)):
        ins = {k: v for k, v in ins.items() if k != "__job__"}
        return [t for p in ins.values() for t in _data(p) if t.tag == T]
    if isinstance(step, ScatterStep):
        parent = T if out_name == "__size__" else T.rsplit(".", 1)[0]
        return [t for t in _data(step.get_input_port()) if t.tag == parent]
    if isinstance(step, GatherStep):
        depth = step.depth
        size = [t for t in _data(step.get_size_port()) if t.tag == T]
        if not size and T in step.size_map:
            # size unknown: the step records the size token it created itself at the forced gather
            size = [step.size_map[T]]
        elems = [t for t in _data(step.get_input_port()) if ".".join(t.tag.split(".")[:-depth]) == T]
        return size + elems
    if isinstance(step, CombinatorStep):
        comb = step.combinator
        if type(comb) is DotProductCombinator and not comb.combinators:
            out = []
            for p in ins.values():
                c = [t for t in _data(p) if _is_prefix(t.tag, T)]
                if c:
                    out.append(max(c, key=lambda t: len(t.tag.split("."))))
            return out
        if type(comb) is CartesianProductCombinator and not comb.combinators and comb.depth == 1:
            n = len(comb.items)
            parts = T.split(".")
            prefix, suffix = parts[:-n], parts[-n:]
            out = []
            for item, sfx in zip(comb.items, suffix):
                want = ".".join(prefix + [sfx])
                out += [t for t in _data(ins[item]) if t.tag == want]
            return out
    return None


def check(ctx, workflows, desc=""):
    toks, prov = read_tables(ctx)
    checked = 0
    for wf in workflows:
        for step in wf.steps.values():
            for out_name, port in step.get_output_ports().items():
                for tok in _data(port):
                    pid = tok.persistent_id
                    if not pid or pid not in toks:
                        raise Violation("token_not_persisted",
                                        f"step {step.name} emitted token tag={tok.tag} on {out_name} without a row (persistent_id={pid}); {desc}",
                                        signature=f"token_not_persisted:{type(step).__name__}")
                    if toks[pid]["tag"] != tok.tag:
                        raise Violation("token_row_mismatch", f"row tag {toks[pid]['tag']} != token tag {tok.tag}; {desc}")
                    exp = expected_dependees(step, out_name, tok)
                    if exp is None:
                        continue
                    exp_ids = {t.persistent_id for t in exp}
                    if None in exp_ids:
                        raise Violation("input_not_persisted", f"step {step.name}: a consumed input of {tok.tag} has no persistent id; {desc}")
                    got = prov.get(pid, set())
                    if got != exp_ids:
                        raise Violation(
                            "wrong_provenance",
                            f"step {step.name} ({type(step).__name__}) output {out_name} tag {tok.tag} id {pid}: recorded dependees "
                            f"{sorted(got)} expected {sorted(exp_ids)} (tags {[t.tag for t in exp]}); {desc}",
                            signature=f"wrong_provenance:{type(step).__name__}")
                    checked += 1
    for depender, deps in prov.items():
        for d in deps:
            if d not in toks or depender not in toks:
                raise Violation("dangling_provenance", f"provenance row ({d},{depender}) references a missing token; {desc}")
            if not d < depender:
                raise Violation("provenance_order", f"dependee {d} not persisted before depender {depender}; {desc}")
    # acyclicity (independent of the id order): Kahn
    indeg = {k: len(v) for k, v in prov.items()}
    succ = {}
    for depender, deps in prov.items():
        for d in deps:
            succ.setdefault(d, []).append(depender)
    ready = [n for n in toks if indeg.get(n, 0) == 0]
    seen = 0
    while ready:
        n = ready.pop()
        seen += 1
        for m in succ.get(n, ()):
            indeg[m] -= 1
            if indeg[m] == 0:
                ready.append(m)
    if seen != len(toks):
        raise Violation("provenance_cycle", f"provenance relation has a cycle ({len(toks) - seen} tokens on cycles); {desc}")
    return checked, len(toks), sum(len(v) for v in prov.values())
