"""H1/H2 (DESIGN.md §3): engine context, harness step classes, token helpers.

All repo classes are real; the harness only subclasses the repo's abstract bases.
Imports of ``streamflow`` happen after ``seams.install()``.
"""
from __future__ import annotations

import json
import os
from typing import Any

from .. import core, seams

seams.install()

from streamflow.core.workflow import Status, Token, Workflow  # noqa: E402
from streamflow.main import build_context  # noqa: E402
from streamflow.workflow.step import Transformer  # noqa: E402
from streamflow.workflow.token import (  # noqa: E402
    IterationTerminationToken,
    ListToken,
    ObjectToken,
    TerminationToken,
)


def make_context(sim: core.Sim, failure_manager: dict | None = None, extra: dict | None = None):
    cfg: dict[str, Any] = {
        "database": {"type": "default", "config": {"connection": ":memory:"}},
        "path": os.path.join(sim.scratch, "streamflow.yml"),
    }
    if failure_manager is not None:
        cfg["failureManager"] = failure_manager
    if extra:
        cfg.update(extra)
    return build_context(cfg)


def raw_db(context):
    """The sqlite3.Connection behind the async layer (reference reads bypass caches)."""
    return context.database.connection._connection._connection


# ---- plain values <-> tokens ---------------------------------------------------------------

def to_token(value, tag: str = "0") -> Token:
    """Nested python value -> Token / ListToken / ObjectToken tree (all with the same tag)."""
    if isinstance(value, list):
        return ListToken([to_token(v, tag) for v in value], tag=tag)
    if isinstance(value, dict) and value.get("__obj__"):
        return ObjectToken({k: to_token(v, tag) for k, v in value.items() if k != "__obj__"}, tag=tag)
    return Token(value, tag=tag)


def plain(token: Token):
    if isinstance(token, TerminationToken):
        return ("TERM", token.value.name)
    if isinstance(token, IterationTerminationToken):
        return ("ITERM", token.tag)
    if isinstance(token, ListToken):
        return [plain(t) for t in token.value]
    if isinstance(token, ObjectToken):
        return {"__obj__": True} | {k: plain(v) for k, v in token.value.items()}
    return token.value


def port_contents(port):
    """[(tag, plain value)] for data tokens + whether the list ends with a termination."""
    out = []
    for t in port.token_list:
        if isinstance(t, TerminationToken):
            out.append(("TERM", t.value.name))
        elif isinstance(t, IterationTerminationToken):
            out.append(("ITERM", t.tag))
        else:
            out.append((t.tag, plain(t)))
    return out


def canon(v) -> str:
    return json.dumps(v, sort_keys=True, default=str)


# ---- harness steps ----------------------------------------------------------------------------

FUNCS = {
    "id": lambda name, vals: vals[0] if len(vals) == 1 else vals,
    "wrap": lambda name, vals: {"f": name, "v": vals},
    "sum": lambda name, vals: _deep_sum(vals),
}


def _deep_sum(v):
    if isinstance(v, bool):
        return int(v)
    if isinstance(v, (int, float)):
        return v
    if isinstance(v, str):
        return len(v)
    if isinstance(v, list):
        return sum(_deep_sum(x) for x in v)
    if isinstance(v, dict):
        return sum(_deep_sum(x) for k, x in sorted(v.items()) if k != "__obj__")
    return 0


class SimTransformer(Transformer):
    """Pure function of its inputs with a simulated, per-tag latency.

    ``fn`` names an entry of FUNCS; applied to the plain values of the inputs ordered by
    port name; the result goes to every output port with the inputs' tag. ``fail_tags``
    makes transform() raise for those tags (engine-level fault)."""

    def __init__(self, name, workflow, fn: str = "id", fail_tags=None):
        super().__init__(name, workflow)
        self.fn = fn
        self.fail_tags = list(fail_tags or [])

    @classmethod
    async def _load(cls, row, loading_context):
        p = row["params"]
        return cls(
            name=row["name"],
            workflow=await loading_context.load_workflow(row["workflow"]),
            fn=p["fn"],
            fail_tags=p["fail_tags"],
        )

    async def _save_additional_params(self, database):
        return (await super()._save_additional_params(database)) | {
            "fn": self.fn,
            "fail_tags": self.fail_tags,
        }

    async def transform(self, inputs):
        sim = core.CURRENT
        # Transformer.run groups inputs by identical tag, so every input carries the same tag
        tag = next(iter(inputs.values())).tag if inputs else "0"
        await sim.io("xf", f"{self.name}:{tag}")
        if tag in self.fail_tags:
            sim.fault("transform_raises")
            raise RuntimeError(f"injected failure in {self.name} tag {tag}")
        vals = [plain(inputs[k]) for k in sorted(inputs)]
        res = FUNCS[self.fn](self.name, vals)
        return {k: to_token(res, tag) for k in self.output_ports}


async def inject(port, tokens, context, terminate: bool = True):
    """Persist input tokens on a port (as the runner does for workflow inputs) and close it."""
    for t in tokens:
        await t.save(context.database, port_id=port.persistent_id)
        port.put(t)
    if terminate:
        port.put(TerminationToken())


from streamflow.workflow.step import BaseStep, _group_by_tag, _reduce_statuses  # noqa: E402
from streamflow.workflow.utils import check_termination  # noqa: E402
from streamflow.core.utils import get_entity_ids  # noqa: E402
import asyncio  # noqa: E402
import posixpath  # noqa: E402


class SimParallel(BaseStep):
    """Element-wise step that processes every tag in its own task (as ExecuteStep runs jobs
    concurrently): outputs appear in completion order, which the seeded per-tag latency decides.
    Same function table and failure injection as SimTransformer."""

    def __init__(self, name, workflow, fn: str = "id", fail_tags=None):
        super().__init__(name, workflow)
        self.fn = fn
        self.fail_tags = list(fail_tags or [])

    @classmethod
    async def _load(cls, row, loading_context):
        p = row["params"]
        return cls(name=row["name"], workflow=await loading_context.load_workflow(row["workflow"]),
                   fn=p["fn"], fail_tags=p["fail_tags"])

    async def _save_additional_params(self, database):
        return (await super()._save_additional_params(database)) | {"fn": self.fn, "fail_tags": self.fail_tags}

    async def _process(self, inputs):
        sim = core.CURRENT
        tag = next(iter(inputs.values())).tag
        await sim.io("job", f"{self.name}:{tag}")
        if tag in self.fail_tags:
            sim.fault("transform_raises")
            raise RuntimeError(f"injected failure in {self.name} tag {tag}")
        vals = [plain(inputs[k]) for k in sorted(inputs)]
        res = FUNCS[self.fn](self.name, vals)
        for k in self.output_ports:
            port = self.get_output_port(k)
            port.put(await self._persist_token(to_token(res, tag), port, get_entity_ids(inputs.values())))
        return Status.COMPLETED

    async def run(self):
        input_ports = self.get_input_ports()
        inputs_map: dict = {}
        statuses = []
        pending = {asyncio.create_task(self._get_inputs(input_ports), name="retrieve_inputs")}
        try:
            while pending:
                finished, pending = await asyncio.wait(pending, return_when=asyncio.FIRST_COMPLETED)
                for task in sorted(finished, key=lambda x: x.sim_id):
                    if task.get_name() == "retrieve_inputs":
                        inputs = task.result()
                        if check_termination(inputs.values()):
                            statuses.append(_reduce_statuses([t.value for t in inputs.values()]))
                        else:
                            _group_by_tag(inputs, inputs_map)
                            for tag in list(inputs_map):
                                if len(inputs_map[tag]) == len(input_ports):
                                    pending.add(asyncio.create_task(self._process(inputs_map.pop(tag)), name=f"job-{tag}"))
                            pending.add(asyncio.create_task(self._get_inputs(input_ports), name="retrieve_inputs"))
                    else:
                        statuses.append(task.result())
            await self.terminate(self._get_status(_reduce_statuses(statuses)))
        except asyncio.CancelledError:
            for p in pending:
                p.cancel()
            await self.terminate(Status.CANCELLED)
        except Exception as e:
            from streamflow.log_handler import logger

            logger.exception(e)
            for p in pending:
                p.cancel()
            await self.terminate(Status.FAILED)
