"""H3 + scheduler scenarios (C10-C13): fake connectors with declared capacities, a job-lifecycle
driver, and harness-side arithmetic that recomputes reservations from job_allocations alone."""
from __future__ import annotations

import asyncio
import os
import posixpath
import re
from collections import defaultdict

from .. import core
from ..core import Violation
from ..loop import Quiescent
from . import engine as H

from streamflow.core.config import BindingConfig
from streamflow.core.deployment import Connector, DeploymentConfig, FilterConfig, Target, WrapsConfig
from streamflow.core.scheduling import AvailableLocation, Hardware, HardwareRequirement, Storage
from streamflow.core.workflow import Job, Status, Token
from streamflow.deployment.connector import connector_classes
from streamflow.deployment.wrapper import ConnectorWrapper

MB = 2 ** 20


class SimConnector(Connector):
    """Declared locations; every call takes simulated time and is logged."""

    def __init__(self, deployment_name, config_dir, locations=None, usage=None, transferBufferSize=2 ** 16,
                 deploy_time=0, undeploy_time=0, fail_deploy=False, **kw):
        super().__init__(deployment_name, config_dir, transferBufferSize)
        self.locs = locations or []
        self.usage = usage or {}
        self.fail_deploy = fail_deploy
        self.deploy_time = deploy_time
        self.undeploy_time = undeploy_time
        self.live = False

    @classmethod
    def get_schema(cls):
        return "{}"

    def _log(self, what, *a):
        sim = core.CURRENT
        if sim is not None:
            sim.log(what, self.deployment_name, *a)

    async def deploy(self, external):
        sim = core.CURRENT
        self._log("deploy.start", sim.sim_id(self))
        await sim.io("deploy", self.deployment_name, extra=self.deploy_time)
        if self.fail_deploy:
            sim.fault("deploy_raises")
            self._log("deploy.fail", sim.sim_id(self))
            raise RuntimeError(f"injected deploy failure for {self.deployment_name}")
        self.live = True
        self._log("deploy.end", sim.sim_id(self))

    async def undeploy(self, external):
        sim = core.CURRENT
        self._log("undeploy.start", sim.sim_id(self))
        await sim.io("undeploy", self.deployment_name, extra=self.undeploy_time)
        self.live = False
        self._log("undeploy.end", sim.sim_id(self))

    async def get_available_locations(self, service=None):
        sim = core.CURRENT
        self._log("use", sim.sim_id(self), self.live)
        await sim.io("locations", self.deployment_name)
        out = {}
        for spec in self.locs:
            hw = None
            if spec["kind"] == "hw":
                hw = Hardware(cores=spec["cores"], memory=spec["memory"],
                              storage={m: Storage(m, s) for m, s in spec["storage"].items()})
            out[spec["name"]] = AvailableLocation(
                name=spec["name"], deployment=self.deployment_name, hostname=spec["name"], service=service,
                slots=spec.get("slots"), hardware=hw)
        return out

    async def run(self, location, command, environment=None, workdir=None, stdin=None,
                  stdout=asyncio.subprocess.STDOUT, stderr=asyncio.subprocess.STDOUT,
                  capture_output=False, timeout=None, job_name=None):
        sim = core.CURRENT
        await sim.io("run", location.name)
        cmd = " ".join(command)
        if cmd.startswith("find -L"):
            total = 0
            paths = re.findall(r'"([^"]+)"', cmd.split("-type")[0])
            for p in paths:
                total += self.usage.get("/".join(p.strip("/").split("/")[-2:]), 0)
            if self.usage.get("__fault__") and sim.tape.draw(8, "find.fault") == 7:
                # command-channel fault: the size of the job directories cannot be measured
                sim.fault("storage_usage_unmeasurable")
                return ("find: cannot access: Input/output error", 2)
            if paths:
                spec = next((x for x in self.locs if x["name"] == location.name), None)
                mount = os.sep if spec is not None and spec["kind"] == "slots" else "/" + paths[0].strip("/").split("/")[0]
                sim.info.setdefault("measured", {})
                key = (location.name, mount)
                sim.info["measured"][key] = sim.info["measured"].get(key, 0.0) + total / MB
            return (str(total), 0) if capture_output else None
        if cmd.startswith("test -e"):
            p = command[2].strip("'\"")
            return (p, 0) if capture_output else None
        return ("", 0) if capture_output else None

    async def copy_local_to_remote(self, src, dst, locations, read_only=False):
        await core.CURRENT.io("copy", self.deployment_name)

    async def copy_remote_to_local(self, src, dst, location, read_only=False):
        await core.CURRENT.io("copy", self.deployment_name)

    async def copy_remote_to_remote(self, src, dst, locations, source_location, source_connector=None, read_only=False):
        await core.CURRENT.io("copy", self.deployment_name)

    async def get_shell(self, command, location):
        raise NotImplementedError

    async def get_stream_reader(self, command, location):
        raise NotImplementedError

    async def get_stream_writer(self, command, location):
        raise NotImplementedError


class SimWrapper(ConnectorWrapper):
    """A stacked deployment: one location on top of every inner location, with bind mounts."""

    def __init__(self, deployment_name, config_dir, connector, service=None, transferBufferSize=2 ** 16,
                 level=None, deploy_time=0, undeploy_time=0, fail_deploy=False, **kw):
        super().__init__(deployment_name, config_dir, connector, service, transferBufferSize)
        self.level = level or {}
        self.fail_deploy = fail_deploy
        self.deploy_time = deploy_time
        self.undeploy_time = undeploy_time
        self.live = False

    @classmethod
    def get_schema(cls):
        return "{}"

    _log = SimConnector._log
    deploy = SimConnector.deploy
    undeploy = SimConnector.undeploy

    async def get_available_locations(self, service=None):
        sim = core.CURRENT
        self._log("use", sim.sim_id(self), self.live)
        inner = await self.connector.get_available_locations(service=self.service)
        await sim.io("locations", self.deployment_name)
        out = {}
        for name, iloc in inner.items():
            lv = self.level
            hw = Hardware(cores=lv["cores"], memory=lv["memory"],
                          storage={m: Storage(m, s, bind=b) for m, (s, b) in lv["storage"].items()})
            nm = f"{self.deployment_name}-on-{name}"
            out[nm] = AvailableLocation(name=nm, deployment=self.deployment_name, hostname=nm, service=service,
                                        stacked=True, hardware=hw, wraps=iloc)
        return out


connector_classes["sim"] = SimConnector
connector_classes["simwrap"] = SimWrapper


class SimTarget(Target):
    """Target whose hash is simulator-assigned (Target's default hash is address-based and
    MatchingBindingFilter collects survivors in a set)."""

    def __hash__(self):
        sim = core.CURRENT
        return getattr(self, "_sim_hash", None) or id(self)

    def __eq__(self, other):
        return self is other


class SimHardwareRequirement(HardwareRequirement):
    def __init__(self, table):
        self.table = table  # job name -> (cores, memory, out MB, tmp MB)

    @classmethod
    async def _load(cls, row, loading_context):
        return cls(row["table"])

    async def _save_additional_params(self, database):
        return {"table": self.table}

    def eval(self, job):
        c, m, o, t = self.table[job.name]
        return Hardware(cores=c, memory=m, storage={
            "__outdir__": Storage(os.sep, o, {job.output_directory}),
            "__tmpdir__": Storage(os.sep, t, {job.tmp_directory}),
        })


# ---- scenario ----------------------------------------------------------------------------------

Q = (0.0, 0.25, 0.5, 1.0, 2.0)


def gen_scenario(t, max_jobs=10, with_recovery=True):
    ndep = 1 + t.draw(3, "ndep")
    deps = []
    for d in range(ndep):
        kind = ("hw", "hw", "slots")[t.draw(3, f"d{d}.kind")]
        nloc = 1 + t.draw(3, f"d{d}.nloc")
        locs = []
        for l in range(nloc):
            if kind == "hw":
                locs.append({"name": f"d{d}l{l}", "kind": "hw", "cores": float(1 + t.draw(4, "cores")),
                             "memory": float(256 * (1 + t.draw(4, "mem"))),
                             "storage": {"/": float(100 * (1 + t.draw(3, "root"))), "/data": float(100 * (1 + t.draw(4, "data")))}})
            else:
                locs.append({"name": f"d{d}l{l}", "kind": "slots", "slots": 1 + t.draw(3, "slots")})
        deps.append({"name": f"d{d}", "kind": kind, "locs": locs, "workdir": "/data" if kind == "hw" else "/work"})
    wrapper = None
    if deps[0]["kind"] == "hw" and t.draw(3, "wrapper") == 2:
        wrapper = {"name": "w0", "wraps": "d0", "cores": float(1 + t.draw(3, "w.cores")), "memory": float(256 * (1 + t.draw(3, "w.mem"))),
                   "storage": {"/": (50.0, None), "/mnt": (float(100 * (1 + t.draw(3, "w.mnt"))), "/data" if t.draw(3, "w.bind") else None)},
                   "workdir": "/mnt"}
    tnames = [d["name"] for d in deps] + (["w0"] if wrapper else [])
    njobs = 2 + t.draw(max_jobs - 1, "njobs")
    jobs = []
    for j in range(njobs):
        ntg = 1 + t.draw(min(3, len(tnames)), f"j{j}.ntargets")
        tg = t.shuffle(tnames, f"j{j}.targets")[:ntg]
        targets = []
        for name in tg:
            nl = len(deps[0]["locs"]) if name == "w0" else len(next(d for d in deps if d["name"] == name)["locs"])
            targets.append({"dep": name, "locations": 1 + (t.draw(2, "tloc") if nl >= 2 else 0)})
        req = (Q[t.draw(5, "cores")] * 2, float(128 * t.draw(5, "mem")), float(25 * t.draw(6, "out")), float(25 * t.draw(4, "tmp")))
        path = []
        attempts = 1 + (t.draw(3, f"j{j}.retries") if with_recovery else 0)
        for a in range(attempts):
            last = a == attempts - 1
            run = t.draw(4, f"j{j}.a{a}.running") > 0     # goes RUNNING before its terminal status
            if last:
                term = ("COMPLETED", "COMPLETED", "FAILED", "CANCELLED")[t.draw(4, f"j{j}.a{a}.term")]
                path.append({"running": run, "term": term, "dup": t.draw(3, "dup") == 2, "recover": False, "dup_running": t.draw(4, "dup.running") == 3,
                             "dup_fireable": t.draw(5, "dup.fireable") == 4})
            else:
                path.append({"running": run, "term": ("FAILED", None)[t.draw(2, "viaFailed")], "dup": t.draw(3, "dup") == 2, "recover": True, "dup_running": t.draw(4, "dup.running") == 3,
                             "direct_rollback": t.draw(4, "direct.rollback") == 3,
                             # a recovery that takes long (building and running the recovery workflow): the job stays in RECOVERY,
                             # with its resources released, until the controller lets it go on at a quiescent point
                             "recovery_hold": t.draw(3, "recovery.hold") == 2, "dup_fireable": t.draw(5, "dup.fireable") == 4})
        jobs.append({"name": f"/s{j % 3}/0.{j}", "targets": targets, "req": req, "path": path,
                     # measured usage of the job's directories never exceeds what the job declared
                     # (a job writing more than it declared makes reserved+measured exceed the capacity
                     # and Storage.__sub__ raise inside _is_valid: outside the listed properties)
                     "usage": (int(req[2] * MB) // 4 * t.draw(5, "u.out"), int(req[3] * MB) // 4 * t.draw(5, "u.tmp"))})
    return {"deps": deps, "wrapper": wrapper, "jobs": jobs, "retry_delay": (0, 0, 5)[t.draw(3, "retry_delay")],
            "find_faults": t.draw(4, "find.faults") == 3}


class Scenario:
    def __init__(self, sim, sc, filters=None):
        self.sim = sim
        self.sc = sc
        self.filters = filters
        self.findings = []   # (property, Violation)
        self.granted = {}    # job name -> attempt count granted
        self.waiting = set()
        self.held = {}
        self.done = set()
        self.measured = defaultdict(float)  # (location, mount) -> MB measured at releases
        self.placements = []
        self.last_change = 0.0
        self.crashed = False

    # -- setup ---------------------------------------------------------------------------------
    async def setup(self):
        sim, sc = self.sim, self.sc
        extra = {}
        if sc["retry_delay"]:
            extra = {"scheduling": {"scheduler": {"type": "default", "config": {"retry_delay": sc["retry_delay"]}}}}
        self.ctx = H.make_context(sim, extra=extra)
        usage = {}
        for j in sc["jobs"]:
            base = "j" + j["name"].rsplit(".", 1)[1]
            usage[f"{base}/out"] = j["usage"][0]
            usage[f"{base}/tmp"] = j["usage"][1]
        if sc.get("find_faults"):
            usage["__fault__"] = 1
        self.cfgs = {}
        for d in sc["deps"]:
            cfg = DeploymentConfig(name=d["name"], type="sim", config={"locations": d["locs"], "usage": usage}, lazy=False, workdir=d["workdir"])
            self.cfgs[d["name"]] = cfg
            await self.ctx.deployment_manager.deploy(cfg)
        if sc["wrapper"]:
            w = sc["wrapper"]
            self.ctx.config.setdefault("deployments", {})
            cfg = DeploymentConfig(name="w0", type="simwrap", config={"level": w}, lazy=False, workdir=w["workdir"],
                                   wraps=WrapsConfig(deployment=w["wraps"]))
            self.cfgs["w0"] = cfg
            await self.ctx.deployment_manager.deploy(cfg)
        self.req = SimHardwareRequirement({j["name"]: j["req"] for j in sc["jobs"]})
        # capacities per location name
        self.cap = {}
        for d in sc["deps"]:
            for l in d["locs"]:
                self.cap[l["name"]] = l
        if sc["wrapper"]:
            w = sc["wrapper"]
            for l in next(d for d in sc["deps"] if d["name"] == w["wraps"])["locs"]:
                self.cap[f"w0-on-{l['name']}"] = {"name": f"w0-on-{l['name']}", "kind": "hw", "cores": w["cores"], "memory": w["memory"],
                                                 "storage": {m: s for m, (s, b) in w["storage"].items()}, "inner": l["name"],
                                                 "binds": {m: b for m, (s, b) in w["storage"].items()}}

    def workdir(self, dep):
        if dep == "w0":
            return self.sc["wrapper"]["workdir"]
        return next(d for d in self.sc["deps"] if d["name"] == dep)["workdir"]

    def binding(self, j):
        targets = []
        for i, tg in enumerate(j["targets"]):
            tt = SimTarget(deployment=self.cfgs[tg["dep"]], locations=tg["locations"], workdir=self.workdir(tg["dep"]))
            tt._sim_hash = 64 + ((i * 3 + self.sim.tape.draw(8, "target.hash")) % 8)
            targets.append(tt)
        return BindingConfig(targets=targets, filters=self.filters or [])

    # -- harness arithmetic -----------------------------------------------------------------------
    def level_reqs(self, jobname, locname):
        """[(location name, cores, mem, {mount: MB})] for every stacked level below ``locname``."""
        c, m, o, t = self.req.table[jobname]
        cap = self.cap[locname]
        out = []
        if cap["kind"] == "slots":
            return [(locname, c, m, {})]
        wd = "/mnt" if locname.startswith("w0-on-") else "/data"
        out.append((locname, c, m, {wd: o + t}))
        if "inner" in cap:
            b = cap["binds"].get(wd)
            out.append((cap["inner"], c, m, ({b: o + t} if b else {})))
        return out

    def reserved(self, with_measured=False):
        use = defaultdict(lambda: [0.0, 0.0, defaultdict(float), 0])
        if with_measured:
            # what earlier jobs left on disk still occupies the location (the scheduler keeps it)
            for (ln, k), v in self.measured.items():
                use[ln][2][k] += v
        sched = self.ctx.scheduler
        for name, alloc in sched.job_allocations.items():
            if alloc.status in (Status.FIREABLE, Status.RUNNING):
                for loc in alloc.locations:
                    for ln, c, m, st in self.level_reqs(name, loc.name):
                        u = use[ln]
                        u[0] += c
                        u[1] += m
                        for k, v in st.items():
                            u[2][k] += v
                        u[3] += 1
        return use

    def check_capacity(self):
        use = self.reserved()
        for ln, (c, m, st, n) in use.items():
            cap = self.cap[ln]
            if cap["kind"] == "slots":
                if n > cap["slots"]:
                    return Violation("over_allocation", f"location {ln}: {n} fireable/running jobs > {cap['slots']} slots", signature="over_allocation:slots")
            else:
                if c > cap["cores"] or m > cap["memory"]:
                    return Violation("over_allocation", f"location {ln}: reserved cores={c} memory={m} > capacity cores={cap['cores']} memory={cap['memory']}",
                                     signature="over_allocation:cores_memory" + (":inner" if not ln.startswith("w0") and self.sc["wrapper"] else ""))
                for k, v in st.items():
                    if v > cap["storage"].get(k, 0.0):
                        return Violation("over_allocation", f"location {ln}: reserved storage {k}={v} > capacity {cap['storage'].get(k)}", signature="over_allocation:storage")
        return None

    def fits_free(self, j, use=None):
        """Is there a declared target of job j with enough free capacity right now?"""
        use = use if use is not None else self.reserved(with_measured=True)
        for tg in j["targets"]:
            if self.target_hosts(j, tg, use):
                return tg
        return None

    def target_hosts(self, j, tg, use):
        dep = tg["dep"]
        names = [n for n, c in self.cap.items() if (n.startswith("w0-on-") if dep == "w0" else (n.startswith(dep + "l")))]
        ok = 0
        for ln in names:
            good = True
            for lname, c, m, st in self.level_reqs(j["name"], ln):
                cap = self.cap[lname]
                u = use.get(lname, [0.0, 0.0, {}, 0])
                if cap["kind"] == "slots":
                    good &= u[3] < cap["slots"]
                else:
                    good &= u[0] + c <= cap["cores"] and u[1] + m <= cap["memory"]
                    for k, v in st.items():
                        good &= u[2].get(k, 0.0) + v <= cap["storage"].get(k, 0.0)
            ok += good
        return ok >= tg["locations"]

    # -- drivers ------------------------------------------------------------------------------------
    async def driver(self, j):
        from streamflow.core.exception import WorkflowExecutionException

        try:
            await self._driver(j)
        except WorkflowExecutionException as e:
            # the scheduler itself failed a request (nothing in these histories is illegal)
            where = core.repo_frame_of(e.__traceback__)
            v = Violation("scheduler_exception", f"scheduler raised {type(e).__name__} at {where} for job {j['name']}: {str(e)[:300]}",
                          signature=f"scheduler_exception:{where}")
            for p in ("C10", "C11", "C12"):
                self.findings.append((p, v))
            self.waiting.discard(j["name"])
            self.held.pop(j["name"], None)
            self.done.add(j["name"])
            self.crashed = True

    async def _driver(self, j):
        sim, sched = self.sim, self.ctx.scheduler
        name = j["name"]
        base = "j" + name.rsplit(".", 1)[1]
        binding = self.binding(j)
        for a, step in enumerate(j["path"]):
            job = Job(name=name, workflow_id=0, inputs={"x": Token(str(a))}, input_directory=None,
                      output_directory=None, tmp_directory=None)
            # explicit per-job directories under the target's workdir are set after the grant
            # (the scheduler evaluates the requirement with the target workdir as directory)
            await sim.io("submit", name)
            self.waiting.add(name)
            self.last_change = sim.loop.time()
            await sched.schedule(job, binding, self.req)
            self.waiting.discard(name)
            self.last_change = sim.loop.time()
            self.granted[name] = self.granted.get(name, 0) + 1
            alloc = sched.get_allocation(name)
            self.placements.append((name, a, alloc.target.deployment.name, [l.name for l in alloc.locations]))
            sim.log("GRANT", name, a, alloc.target.deployment.name)
            # as CWLScheduleStep does after creating the job directories: point the reservation's
            # storages at the job's own directories (their real usage is measured at release)
            wd = alloc.target.workdir
            hw = sched.get_hardware(name)
            hw.storage["__outdir__"].paths = {f"{wd}/{base}/out"}
            hw.storage["__tmpdir__"].paths = {f"{wd}/{base}/tmp"}
            if step.get("dup_fireable"):
                # a repeated notification of the status the job already has right after the grant
                sim.probe("duplicate_fireable_notification")
                await sim.io("fireable2", name)
                await sched.notify_status(name, Status.FIREABLE)
            if step["running"]:
                await sim.io("start", name)
                await sched.notify_status(name, Status.RUNNING)
                if step.get("dup_running"):
                    sim.probe("duplicate_running_notification")
                    await sim.io("start2", name)
                    await sched.notify_status(name, Status.RUNNING)
            ev = asyncio.Event()
            self.held[name] = ev
            self.last_change = sim.loop.time()
            await ev.wait()
            self.held.pop(name, None)
            self.last_change = sim.loop.time()
            await sim.io("finish", name)
            if step["term"]:
                st = Status[step["term"]]
                await self._release(name, st)
                if step["dup"]:
                    sim.probe("duplicate_notification")
                    await sched.notify_status(name, st)
            if step["recover"]:
                if step.get("direct_rollback"):
                    # out-of-order history: rolled back straight from RUNNING/FIREABLE/FAILED
                    sim.probe("direct_rollback")
                    await self._release(name, Status.ROLLBACK)
                else:
                    await self._release(name, Status.RECOVERY)
                    if step.get("recovery_hold"):
                        sim.probe("recovery_hold")
                        ev = asyncio.Event()
                        self.held[name] = ev
                        self.last_change = sim.loop.time()
                        await ev.wait()
                        self.held.pop(name, None)
                        self.last_change = sim.loop.time()
                    await sim.io("recover", name)
                    await sched.notify_status(name, Status.ROLLBACK)
                sim.probe("rollback")
        self.done.add(name)

    async def _release(self, name, status):
        """Notify a status that makes the job leave the fireable/running states; remember what
        the connector will measure for the job's directories on every level."""
        sched = self.ctx.scheduler
        alloc = sched.get_allocation(name)
        releases = alloc.status in (Status.RUNNING, Status.FIREABLE)
        locs = list(alloc.locations)
        await sched.notify_status(name, status)
        # what the scheduler keeps reserved afterwards is what the connector reported as the measured
        # usage of the job's directories (recorded by SimConnector.run in sim.info["measured"])
        self.measured = defaultdict(float, self.sim.info.get("measured", {}))

    # -- controller -----------------------------------------------------------------------------------
    def run(self, check_c10=True):
        sim = self.sim
        sim.run(self.setup())
        last = [None]

        def on_step():
            sched = self.ctx.scheduler
            fp = tuple((n, a.status, len(a.locations)) for n, a in sched.job_allocations.items())
            if fp != last[0]:
                last[0] = fp
                v = self.check_capacity()
                if v is not None and not any(p == "C10" for p, _ in self.findings):
                    self.findings.append(("C10", v))

        if check_c10:
            sim.loop.on_step = on_step
        tasks = []

        async def start():
            for j in self.sc["jobs"]:
                tasks.append(asyncio.create_task(self.driver(j), name=f"driver{j['name']}"))

        sim.run(start())

        retry = self.sc["retry_delay"]
        names_in_order = [j["name"] for j in self.sc["jobs"]]
        if retry and sim.profile == 2:
            sim.profile = 1  # no 1000 s stalls while the harness measures idleness in polling periods

        async def settle():
            if retry:
                # waiters poll every retry_delay seconds, so the loop never goes quiescent: a
                # "quiescent point" is reached when every unfinished driver is parked inside
                # schedule() or holding its resources and nothing changed for 4 polling periods
                while True:
                    _, pending = await asyncio.wait(tasks, timeout=retry)
                    if not pending:
                        return True
                    parked = all(tk.done() or nm in self.waiting or nm in self.held for nm, tk in zip(names_in_order, tasks))
                    if parked and sim.loop.time() - self.last_change >= 4 * retry + 1:
                        return False
            await asyncio.gather(*tasks)
            return True

        rounds = 0
        while True:
            rounds += 1
            try:
                finished = sim.run(settle())
            except Quiescent:
                finished = False
            if finished:
                break
            if True:
                sim.probe("quiescent_point")
                for tk in tasks:
                    if tk.done() and not tk.cancelled() and tk.exception() is not None:
                        raise tk.exception()
                # C12: nobody may be waiting while a declared target has enough free capacity
                use = self.reserved(with_measured=True)
                for j in self.sc["jobs"]:
                    if j["name"] in self.waiting:
                        tg = self.fits_free(j, use)
                        if tg is not None:
                            self.findings.append(("C12", Violation(
                                "lost_wakeup",
                                f"job {j['name']} (req {j['req']}) is still waiting at a quiescent point although target {tg} "
                                f"has enough free capacity; reserved={ {k: (v[0], v[1], dict(v[2]), v[3]) for k, v in use.items()} }",
                                signature="lost_wakeup")))
                            sim.loop.on_step = None
                            return
                if not self.held:
                    break  # remaining waiters do not fit anywhere, even with everything released
                names = sorted(self.held)
                k = 1 + sim.tape.draw(len(names), "release.count")
                for nm in sim.tape.shuffle(names, "release.order")[:k]:
                    self.held[nm].set()
                self.last_change = sim.loop.time()
                if rounds > 200:
                    raise core.HarnessError("controller did not converge")
        sim.loop.on_step = None
        for tk in tasks:
            if tk.done() and not tk.cancelled() and tk.exception() is not None:
                raise tk.exception()
        if not retry:
            sim.drain()
        self.final_checks()

    def final_checks(self):
        sched = self.ctx.scheduler
        if self.crashed:
            return
        # C12: everything that fits some target's total capacity must have been granted
        empty = self.reserved(with_measured=True)
        for j in self.sc["jobs"]:
            if j["name"] in self.waiting and self.fits_free(j, empty) is not None and not any(p == "C12" for p, _ in self.findings):
                self.findings.append(("C12", Violation("never_granted", f"job {j['name']} fits an idle target but was never granted", signature="never_granted")))
        if self.waiting:
            self.sim.probe("unfittable_request_left_waiting")
        # C11: reservations back to zero, storage keeps exactly the measured usage
        still = [n for n, a in sched.job_allocations.items() if a.status in (Status.FIREABLE, Status.RUNNING)]
        if still:
            return
        for ln, hw in sched.hardware_locations.items():
            if hw.cores != 0 or hw.memory != 0:
                self.findings.append(("C11", Violation("resources_not_returned",
                                     f"location {ln}: cores={hw.cores} memory={hw.memory} after every job left the fireable/running states",
                                     signature="resources_not_returned:cores_memory")))
                return
            for disk in hw.normalized().storage.values():
                want = self.measured.get((ln, disk.mount_point), 0.0)
                if abs(disk.size - want) > 1e-9:
                    self.findings.append(("C11", Violation("storage_not_returned",
                                         f"location {ln} mount {disk.mount_point}: reserved {disk.size} MB, measured usage of the jobs' directories {want} MB",
                                         signature="storage_not_returned")))
                    return
