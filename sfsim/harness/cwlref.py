"""Reference CWL runner (cwltool) for C29: the oracle, not the system under test.

cwltool runs in a separate, persistent helper process per worker (import cost paid once); nothing of
it shares state with the simulated StreamFlow run.  Requests are answered synchronously.
"""
from __future__ import annotations

import atexit
import hashlib
import json
import os
import re
import subprocess
from urllib.parse import unquote, urlparse

_SERVER = r'''
import sys, json, io
import cwltool.main
for line in sys.stdin:
    req = json.loads(line)
    out, err = io.StringIO(), io.StringIO()
    try:
        rc = cwltool.main.main(argsl=["--quiet", "--enable-ext", "--outdir", req["outdir"], req["wf"], req["job"]], stdout=out, stderr=err)
    except SystemExit as e:
        rc = e.code if isinstance(e.code, int) else 1
    except BaseException as e:
        rc = 99
        err.write(repr(e))
    sys.stdout.write(json.dumps({"rc": rc, "out": out.getvalue(), "err": err.getvalue()[-3000:]}) + "\n")
    sys.stdout.flush()
'''
_proc = None
_pid = None
last_seconds = 0.0


def _server():
    global _proc, _pid
    if _proc is None or _proc.poll() is not None or _pid != os.getpid():
        env = dict(os.environ)
        env.pop("PYTHONHASHSEED", None)
        _proc = subprocess.Popen(["/venv/bin/python", "-B", "-c", _SERVER], stdin=subprocess.PIPE, stdout=subprocess.PIPE, stderr=subprocess.DEVNULL,
                                 text=True, env=env, cwd="/")
        _pid = os.getpid()
        atexit.register(_stop)
    return _proc


def _stop():
    global _proc
    if _proc is not None and _pid == os.getpid():
        try:
            _proc.stdin.close()
            _proc.wait(timeout=5)
        except Exception:
            _proc.kill()
    _proc = None


def run(wf, job, outdir, timeout=45.0):
    """-> ("ok", output object) | ("failed", stderr tail)"""
    import time

    os.makedirs(outdir, exist_ok=True)
    p = _server()
    t0 = time.monotonic()
    p.stdin.write(json.dumps({"wf": wf, "job": job, "outdir": outdir}) + "\n")
    p.stdin.flush()
    import select

    ready, _, _ = select.select([p.stdout], [], [], timeout)
    if not ready:
        # too much work for one simulated run (e.g. a cross product of two long arrays of process-spawning jobs)
        p.kill()
        p.wait()
        return "timeout", None
    line = p.stdout.readline()
    if not line:
        raise RuntimeError("reference runner died")
    r = json.loads(line)
    global last_seconds
    last_seconds = time.monotonic() - t0
    if r["rc"] == 0:
        return "ok", json.loads(r["out"])
    return "failed", r["err"]


def normalise(v):
    """Output object up to file locations: Files become (basename, size, checksum, actual content hash)."""
    if isinstance(v, dict):
        if v.get("class") == "File":
            path = v.get("path")
            if not path and v.get("location"):
                path = unquote(urlparse(v["location"]).path)
            content = None
            if path and os.path.isfile(path):
                with open(path, "rb") as f:
                    content = hashlib.sha1(f.read()).hexdigest()
            # a runner renames an output file whose name is already taken in the output directory (made.txt_2 /
            # made-1.txt): that suffix belongs to the location, not to the value
            bn = v.get("basename")
            if bn:
                bn = re.sub(r"(_\d+)$", "", bn)
                bn = re.sub(r"-\d+(?=(\.[^.]*)?$)", "", bn)
            return {"class": "File", "basename": bn, "size": v.get("size"), "checksum": v.get("checksum"), "content_sha1": content}
        if v.get("class") == "Directory":
            return {"class": "Directory", "basename": v.get("basename"), "listing": normalise(v.get("listing"))}
        return {k: normalise(x) for k, x in sorted(v.items())}
    if isinstance(v, list):
        return [normalise(x) for x in v]
    return v
