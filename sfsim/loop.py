"""Deterministic asyncio event loop with a virtual clock (DESIGN.md §1.1).

* ``time()`` is simulated; when nothing is ready the clock jumps to the next timer;
* when nothing is ready and there is no timer the loop raises :class:`Quiescent`;
* the ready queue is FIFO exactly as in CPython (only legal schedules);
* every task is a :class:`SimTask` (pure-python Task) with a sequential id, a
  deterministic name and a simulator-chosen ``__hash__``;
* no selector, no threads: ``run_in_executor`` runs inline.
"""
from __future__ import annotations

import asyncio
import heapq
import zlib
from asyncio import base_events, events, tasks


class Quiescent(Exception):
    """Nothing is runnable and no timer is pending while the main coroutine is unfinished."""


class StepLimit(Exception):
    """The per-run cap on loop callbacks or virtual time was exceeded."""


class SimTask(tasks._PyTask):
    _sim_next = 0
    _sim_mult = 1
    _sim_salt = 0

    def __init__(self, coro, *, loop=None, name=None, context=None, **kw):
        SimTask._sim_next += 1
        self.sim_id = SimTask._sim_next
        self._sim_hash = (self.sim_id * SimTask._sim_mult + SimTask._sim_salt) & 0x3FFFFFFF
        if name is None:
            name = f"T{self.sim_id}"
        super().__init__(coro, loop=loop, name=name, context=context, **kw)

    def __hash__(self):
        return self._sim_hash

    def __eq__(self, other):
        return self is other


def _task_factory(loop, coro, **kw):
    return SimTask(coro, loop=loop, **kw)


class SimLoop(base_events.BaseEventLoop):
    def __init__(self, max_steps: int = 2_000_000, max_vtime: float = 1e9):
        super().__init__()
        self._now = 0.0
        self.steps = 0
        self.max_steps = max_steps
        self.max_vtime = max_vtime
        self.digest = 0
        self.on_step = None  # optional callable() run after every handle (invariants)
        self.set_task_factory(_task_factory)
        self._clock_resolution = 0.0
        # pure-python task ids restart for every loop so that one run == one numbering
        SimTask._sim_next = 0

    # -- clock -----------------------------------------------------------------------
    def time(self):
        return self._now

    # -- selector-less plumbing ----------------------------------------------------------
    def _process_events(self, event_list):
        pass

    def _write_to_self(self):
        pass

    def _make_self_pipe(self):
        pass

    def _close_self_pipe(self):
        pass

    # -- the scheduler ---------------------------------------------------------------
    def _run_once(self):
        sched = self._scheduled
        while sched and sched[0]._cancelled:
            h = heapq.heappop(sched)
            h._scheduled = False
        ready = self._ready
        if not ready and not self._stopping:
            if not sched:
                raise Quiescent()
            when = sched[0]._when
            if when > self._now:
                if when > self.max_vtime:
                    raise StepLimit(f"virtual time {when} > cap {self.max_vtime}")
                self._now = when
        now = self._now
        while sched and sched[0]._when <= now:
            h = heapq.heappop(sched)
            h._scheduled = False
            if not h._cancelled:
                ready.append(h)
        on_step = self.on_step
        for _ in range(len(ready)):
            h = ready.popleft()
            if h._cancelled:
                continue
            self.steps += 1
            cb = h._callback
            owner = getattr(cb, "__self__", None)
            tid = getattr(owner, "sim_id", None)
            if tid is None:
                tid = getattr(cb, "__qualname__", None) or type(cb).__name__
            self.digest = zlib.crc32(
                f"{now!r}|{tid}".encode(), self.digest
            )
            h._run()
            if on_step is not None:
                on_step()
        h = None
        if self.steps > self.max_steps:
            raise StepLimit(f"callbacks {self.steps} > cap {self.max_steps}")

    # -- threads ------------------------------------------------------------------------
    def run_in_executor(self, executor, func, *args):
        fut = self.create_future()
        try:
            res = func(*args)
        except BaseException as e:  # noqa
            exc = e
            self.call_soon(lambda: fut.done() or fut.set_exception(exc))
        else:
            self.call_soon(lambda: fut.done() or fut.set_result(res))
        return fut

    def call_soon_threadsafe(self, callback, *args, context=None):
        return self.call_soon(callback, *args, context=context)

    # -- helpers ------------------------------------------------------------------------
    def pending_tasks(self):
        return sorted(
            (t for t in asyncio.all_tasks(self) if not t.done()),
            key=lambda t: getattr(t, "sim_id", 0),
        )

    def describe_pending(self, limit: int = 40):
        out = []
        for t in self.pending_tasks()[:limit]:
            coro = t.get_coro()
            where = []
            c = coro
            # walk the await chain
            while c is not None and len(where) < 12:
                fr = getattr(c, "cr_frame", None) or getattr(c, "gi_frame", None)
                if fr is not None:
                    where.append(
                        f"{fr.f_code.co_filename.rsplit('/', 2)[-1]}:{fr.f_lineno}:{fr.f_code.co_name}"
                    )
                c = getattr(c, "cr_await", None) or getattr(c, "gi_yieldfrom", None)
            out.append({"task": t.get_name(), "id": getattr(t, "sim_id", None), "at": where})
        return out

    def drain(self, max_rounds: int = 100000):
        """Run until quiescent (used after the main coroutine finished). Returns True if
        quiescence was reached."""
        events._set_running_loop(self)
        try:
            for _ in range(max_rounds):
                try:
                    self._run_once()
                except Quiescent:
                    return True
            return False
        finally:
            events._set_running_loop(None)

    def shutdown(self):
        """Cancel whatever is left, let the cancellations run, close."""
        self.set_exception_handler(lambda loop, ctx: None)
        self.on_step = None
        for _ in range(5):
            pend = self.pending_tasks()
            if not pend:
                break
            for t in pend:
                t.cancel()
            try:
                self.max_steps = self.steps + 200000
                self.drain(2000)
            except BaseException:  # noqa
                break
        self.close()
