from __future__ import annotations

import argparse
import os
import sys


def main(argv):
    ap = argparse.ArgumentParser(prog="check")
    ap.add_argument("prop", nargs="?")
    ap.add_argument("--tier", default=os.environ.get("VERIF_TIER", "quick"), choices=["quick", "thorough"])
    ap.add_argument("--replay")
    ap.add_argument("--runs", type=int)
    ap.add_argument("--budget", type=float)
    ap.add_argument("--workers", type=int)
    ap.add_argument("--seed", type=int)
    ap.add_argument("--selftest", choices=["determinism", "mutants", "import"])
    ap.add_argument("--n", type=int, default=24)
    ap.add_argument("rest", nargs="*")
    a = ap.parse_args(argv)
    from . import runner

    if a.selftest:
        from . import selftest

        return selftest.main(a)
    if a.replay:
        return runner.replay_file(a.replay)
    if not a.prop:
        ap.error("property id required")
    seed = a.seed if a.seed is not None else int(os.environ.get("VERIF_SEED", runner.DEFAULT_SEED))
    return runner.run_batch(a.prop.upper(), a.tier, seed, workers=a.workers, runs=a.runs, budget_s=a.budget)
