from __future__ import annotations

import argparse
import os
import sys


def main(argv):
    ap = argparse.ArgumentParser(prog="check")
    ap.add_argument("prop", nargs="?")
    ap.add_argument("--tier", default=os.environ.get("VERIF_TIER", "quick"), choices=["quick", "thorough"])
    ap.add_argument("--replay")
    ap.add_argument("--shrink", help="continue shrinking a replay file with a larger budget (writes <file>.min.json)")
    ap.add_argument("--runs", type=int)
    ap.add_argument("--budget", type=float)
    ap.add_argument("--workers", type=int)
    ap.add_argument("--seed", type=int)
    ap.add_argument("--selftest", choices=["determinism", "mutants", "import"])
    ap.add_argument("--n", type=int, default=24)
    ap.add_argument("rest", nargs="*")
    a = ap.parse_args(argv)
    from . import runner

    if a.selftest:
        from . import selftest

        return selftest.main(a)
    if a.replay:
        return runner.replay_file(a.replay)
    if a.shrink:
        import json

        doc = json.load(open(a.shrink))
        mod = runner.load_prop(doc["property"])
        first = {"seed": doc["seed"], "params": doc["params"], "tape": doc["tape"], "klass": doc["violation"]["class"],
                 "signature": doc["violation"]["signature"]}
        out = runner.shrink_violation(mod, first, budget_execs=int(a.runs or 3000), budget_s=float(a.budget or 600))
        runner.write_replay(a.shrink + ".min.json", doc["property"], out, runner.repo_head())
        print("shrunk", len(doc["tape"]), "->", len(out["tape"]), "execs", out.get("shrink_execs"))
        print(out["message"][:1500])
        return 0
    if not a.prop:
        ap.error("property id required")
    seed = a.seed if a.seed is not None else int(os.environ.get("VERIF_SEED", runner.DEFAULT_SEED))
    return runner.run_batch(a.prop.upper(), a.tier, seed, workers=a.workers, runs=a.runs, budget_s=a.budget)
