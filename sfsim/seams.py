"""Install every seam of DESIGN.md §1.3 in this process (idempotent).

Nothing in /repo is modified: all seams are module attributes replaced at start-up.
"""
from __future__ import annotations

import asyncio
import logging
import os
import shlex
import subprocess
import sys
import time as _real_time
import types
import uuid
import warnings

from . import core

_installed = False


class _SimTime(types.ModuleType):
    """Stand-in for the ``time`` module inside selected repo modules (virtual clock)."""

    EPOCH = 1_700_000_000.0

    def __init__(self):
        super().__init__("time")

    def time(self):
        s = core.CURRENT
        return self.EPOCH + (s.loop.time() if s is not None else 0.0)

    def time_ns(self):
        return int(self.time() * 1e9)

    def monotonic(self):
        s = core.CURRENT
        return s.loop.time() if s is not None else 0.0

    perf_counter = monotonic

    def __getattr__(self, name):
        return getattr(_real_time, name)


SIM_TIME = _SimTime()


async def sim_run_in_subprocess(location, command, capture_output, timeout):
    """Replacement of streamflow.core.utils.run_in_subprocess: the command runs for real,
    synchronously, at a simulator-chosen instant (nothing else runs meanwhile); how long it
    "takes" is virtual time chosen by the check (sim.info["subprocess_model"]), against which the
    caller's timeout races exactly as asyncio.wait_for(proc.communicate(), timeout) does."""
    import asyncio

    from . import simproc

    sim = core.CURRENT
    argv = shlex.split(" ".join(command))
    if sim is not None:
        argv = simproc.real_argv(argv, sim)
        await sim.io("proc", getattr(location, "name", None))
    p = subprocess.run(
        argv,
        env=os.environ | (location.environment or {}),
        stdin=subprocess.DEVNULL,
        stdout=subprocess.PIPE if capture_output else subprocess.DEVNULL,
        stderr=subprocess.PIPE if capture_output else subprocess.DEVNULL,
    )
    if sim is not None:
        sim.probes["seam.subprocess"] += 1
        model = sim.info.get("subprocess_model")
        dur = model(argv, p) if model else 0.0
        if dur:
            await asyncio.wait_for(asyncio.sleep(dur), timeout=timeout)
        await sim.io("proc.done", getattr(location, "name", None))
    if capture_output:
        return p.stdout.decode().strip(), p.returncode
    return None


class _Capture(logging.Handler):
    def emit(self, record):
        sim = core.CURRENT
        if sim is None:
            return
        exc = record.exc_info[1] if record.exc_info else None
        if exc is None and isinstance(record.msg, BaseException):
            exc = record.msg
        where = core.repo_frame_of(exc.__traceback__) if exc is not None else None
        if len(sim.errors) < 50:
            sim.errors.append((type(exc).__name__ if exc is not None else None, where,
                               str(record.getMessage())[:300]))


def install():
    global _installed
    if _installed:
        return
    _installed = True
    sys.dont_write_bytecode = True
    repo = core.REPO
    if repo not in sys.path[:1]:
        sys.path.insert(0, repo)
    warnings.simplefilter("ignore")
    # coroutines of abandoned tasks are finalised after their loop is gone: not an error of the run
    sys.unraisablehook = lambda *a, **k: None
    logging.getLogger("asyncio").setLevel(logging.CRITICAL)

    uuid.uuid4 = core.sim_uuid4

    import streamflow  # noqa

    if not os.path.realpath(streamflow.__file__).startswith(os.path.realpath(repo) + os.sep):
        raise core.HarnessError(
            f"streamflow imported from {streamflow.__file__}, expected under {repo}"
        )
    from streamflow.log_handler import logger

    # StreamFlow logs every swallowed exception with logger.exception(); capture those (only
    # ERROR and above) so oracles can tell *why* a run failed. Never draws, never reads a clock.
    for h in list(logger.handlers):
        logger.removeHandler(h)
    logger.propagate = False
    logger.setLevel(logging.ERROR)
    logger.addHandler(_Capture())

    from . import simsqlite
    import streamflow.persistence.sqlite as sq

    sq.aiosqlite = simsqlite

    import streamflow.core.utils as cu

    cu.run_in_subprocess = sim_run_in_subprocess

    import asyncio

    from . import simproc

    asyncio.create_subprocess_exec = simproc.sim_create_subprocess_exec

    import streamflow.workflow.executor as ex

    ex.time = SIM_TIME


# ---- identity hashes ---------------------------------------------------------------------------
# Repo classes without __hash__ hash by address: the iteration order of a set of DataLocation /
# Token / Port objects would depend on the heap state of the process (what ran before), which is a
# source of nondeterminism the simulator must own. Every such class gets a hash assigned in order
# of first use within the run (and permuted by the tape like task hashes); the registry keeps the
# object alive until the run ends, so an address is never reused within a run.
_ID_REG: dict = {}
_ID_PARAMS = [1, 0]
_ID_PATCHED: set = set()
_ID_NMODS = 0


def _identity_hash(self):
    e = _ID_REG.get(id(self))
    if e is None:
        e = _ID_REG[id(self)] = (self, ((len(_ID_REG) + 1) * _ID_PARAMS[0] + _ID_PARAMS[1]) & 0x3FFFFFFF)
    return e[1]


def reset_identity_hashes(mult, salt):
    global _ID_NMODS
    _ID_REG.clear()
    _ID_PARAMS[0], _ID_PARAMS[1] = mult, salt
    if not _installed or len(sys.modules) == _ID_NMODS:
        return
    _ID_NMODS = len(sys.modules)
    import inspect

    for name, mod in list(sys.modules.items()):
        if mod is None or not name.startswith("streamflow"):
            continue
        for cls in list(vars(mod).values()):
            if (inspect.isclass(cls) and cls not in _ID_PATCHED and getattr(cls, "__module__", "").startswith("streamflow")
                    and cls.__hash__ is object.__hash__ and not issubclass(cls, BaseException)):
                try:
                    cls.__hash__ = _identity_hash
                    _ID_PATCHED.add(cls)
                except TypeError:
                    pass


def install_time(*modules):
    for m in modules:
        m.time = SIM_TIME


_CACHED_FUNCS = None


def reset_cachebox_state():
    """cachebox.cached keeps per-function `locks` and `pending_errors` maps in the wrapper's closure,
    keyed by the call arguments only (not by database instance): they outlive a run. Clear them so
    one simulated run cannot leak a pending error or a lock into the next one."""
    global _CACHED_FUNCS
    if _CACHED_FUNCS is None:
        import streamflow.persistence.sqlite as sq
        import streamflow.deployment.connector.queue_manager as qm

        funcs = []
        for cls in (sq.SqliteDatabase, qm.SlurmConnector, qm.PBSConnector, qm.FluxConnector):
            for name, v in vars(cls).items():
                clo = getattr(v, "__closure__", None)
                if clo and "_wrapped" in getattr(v, "__qualname__", "") or (clo and hasattr(v, "callback")):
                    funcs.append(v)
        _CACHED_FUNCS = funcs
    for f in _CACHED_FUNCS:
        for cell in f.__closure__ or ():
            try:
                c = cell.cell_contents
            except ValueError:
                continue
            if isinstance(c, dict):
                c.clear()
            elif type(c).__name__ == "Cache" and hasattr(c, "clear"):
                c.clear()
