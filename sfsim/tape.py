"""One tape drives workload, schedule and faults (DESIGN.md §1.5, §1.6).

Convention: 0 is always the simplest choice.
"""
from __future__ import annotations

import hashlib
import random
import time as _rt


def derive_seed(base: int, prop: str, index: int) -> int:
    h = hashlib.blake2b(f"{base}|{prop}|{index}".encode(), digest_size=8).digest()
    return int.from_bytes(h, "big") >> 1


class Tape:
    __slots__ = ("rng", "replay", "pos", "values", "labels", "keep_labels")

    def __init__(self, seed: int | None = None, replay: list[int] | None = None,
                 keep_labels: bool = False):
        self.rng = random.Random(seed) if replay is None else None
        self.replay = replay
        self.pos = 0
        self.values: list[int] = []
        self.labels: list[str] = []
        self.keep_labels = keep_labels

    def draw(self, n: int, label: str = "") -> int:
        """Return an int in [0, n)."""
        if n <= 1:
            v = 0
        elif self.replay is not None:
            v = self.replay[self.pos] if self.pos < len(self.replay) else 0
            if v >= n:
                v = v % n
            elif v < 0:
                v = 0
        else:
            v = self.rng.randrange(n)
        self.pos += 1
        self.values.append(v)
        if self.keep_labels:
            self.labels.append(label)
        return v

    # conveniences ------------------------------------------------------------------------
    def chance(self, num: int, den: int, label: str = "") -> bool:
        """True with probability num/den; 0 (the simplest) means False."""
        return self.draw(den, label) >= den - num

    def choice(self, seq, label: str = ""):
        return seq[self.draw(len(seq), label)]

    def biased(self, n: int, label: str = "") -> int:
        """Int in [0,n) skewed towards small values (min of two draws encoded in one)."""
        v = self.draw(n * n, label)
        a, b = divmod(v, n)
        return min(a, b)

    def shuffle(self, seq: list, label: str = "") -> list:
        seq = list(seq)
        for i in range(len(seq) - 1):
            j = i + self.draw(len(seq) - i, label)
            seq[i], seq[j] = seq[j], seq[i]
        return seq


def shrink(values: list[int], still_fails, max_execs: int = 300, max_seconds: float = 60.0):
    """Shrink a tape while ``still_fails(candidate) -> bool`` holds.

    Passes: cut the tail, delete blocks, zero entries, halve entries; to a fixpoint within
    the budget. ``still_fails`` re-executes the run in replay mode and answers whether the
    same violation class (and signature) is reported.
    """
    t0 = _rt.monotonic()
    execs = 0
    best = list(values)

    def ok(c):
        nonlocal execs
        if execs >= max_execs or _rt.monotonic() - t0 > max_seconds:
            return False
        execs += 1
        return still_fails(c)

    # strip trailing zeros first (free: past-the-end draws are 0)
    while best and best[-1] == 0:
        best.pop()
    improved = True
    while improved and execs < max_execs and _rt.monotonic() - t0 <= max_seconds:
        improved = False
        # 1. cut the tail (binary search on length)
        lo, hi = 0, len(best)
        while lo < hi and execs < max_execs:
            mid = (lo + hi) // 2
            if ok(best[:mid]):
                hi = mid
                best = best[:mid]
                improved = True
            else:
                lo = mid + 1
        # 2. zero blocks / delete blocks
        size = max(1, len(best) // 2)
        while size >= 1 and execs < max_execs:
            i = 0
            while i < len(best) and execs < max_execs:
                seg = best[i:i + size]
                if any(seg):
                    cand = best[:i] + [0] * len(seg) + best[i + size:]
                    if ok(cand):
                        best = cand
                        improved = True
                        i += size
                        continue
                if size <= 8:
                    cand = best[:i] + best[i + size:]
                    if cand != best and ok(cand):
                        best = cand
                        improved = True
                        continue
                i += size
            size //= 2
        # 3. halve / decrement non-zero entries
        for i in range(len(best)):
            if execs >= max_execs:
                break
            v = best[i]
            while v > 0 and execs < max_execs:
                nv = v // 2
                cand = best[:i] + [nv] + best[i + 1:]
                if ok(cand):
                    best = cand
                    v = nv
                    improved = True
                else:
                    break
        while best and best[-1] == 0:
            best.pop()
    return best, execs
