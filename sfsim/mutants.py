"""Sensitivity self-test (DESIGN.md 1.7, 11): every kept seeded change must still be caught.

For each /verif/seeded/<ID>-<variant>/ whose meta.json says "caught": copy /repo to a scratch directory outside /repo and
/verif, apply patch.diff there (3-way if needed), run the quick tier of the first check listed in `detected_by` with
SFSIM_REPO pointing at the copy, expect exit status 1 and a VIOLATION line, remove the copy.  Evidence and replay files of
these runs go under $TMPDIR (runner), never into /verif.
"""
from __future__ import annotations

import glob
import json
import os
import shutil
import subprocess
import tempfile
from concurrent.futures import ThreadPoolExecutor

from . import runner


def _one(d):
    meta = json.load(open(os.path.join(d, "meta.json")))
    name = os.path.basename(d)
    if meta.get("status") != "caught" or not meta.get("detected_by"):
        return name, "skipped", meta.get("status")
    check = meta["detected_by"][0]
    tmp = tempfile.mkdtemp(prefix="sfsim-mut-")
    try:
        subprocess.run(["cp", "-r", "/repo/.", tmp], check=True)
        patch = os.path.join(d, "patch.diff")
        p = subprocess.run(["git", "apply", patch], cwd=tmp, capture_output=True, text=True)
        if p.returncode != 0:
            subprocess.run(["git", "update-index", "-q", "--refresh"], cwd=tmp)
            p = subprocess.run(["git", "apply", "-3", patch], cwd=tmp, capture_output=True, text=True)
            if p.returncode != 0:
                return name, "patch_does_not_apply", p.stderr[-200:]
        env = dict(os.environ, SFSIM_REPO=tmp, VERIF_WORKERS=os.environ.get("SFSIM_MUT_WORKERS", "4"))
        r = subprocess.run([os.path.join(runner.VERIF, "check"), check, "--tier", "quick"], env=env, capture_output=True, text=True)
        caught = r.returncode == 1 and "VIOLATION property=" in r.stdout
        tail = [ln for ln in r.stdout.splitlines() if " quick: " in ln]
        return name, "caught" if caught else f"MISSED(rc={r.returncode})", f"by {check}: " + (tail[-1][:160] if tail else r.stdout[-200:])
    finally:
        shutil.rmtree(tmp, ignore_errors=True)


def main(a):
    dirs = sorted(glob.glob(os.path.join(runner.VERIF, "seeded", "*-*")))
    if a.prop:
        dirs = [d for d in dirs if os.path.basename(d).upper().startswith(a.prop.upper())]
    bad = 0
    with ThreadPoolExecutor(max_workers=int(os.environ.get("SFSIM_MUT_PARALLEL", "4"))) as ex:
        for name, status, info in ex.map(_one, dirs):
            print(f"{name}: {status} {info}", flush=True)
            if status not in ("caught", "skipped"):
                bad += 1
    print(f"mutants: {len(dirs)} seeded changes, {bad} not caught")
    return 1 if bad else 0
