"""H6 (DESIGN.md §3, §7): batch runner, outcome classification, shrinking, replay files,
known-findings matching, evidence."""
from __future__ import annotations

import faulthandler
import gc
import importlib
import json
import multiprocessing
import os
import subprocess
import sys
import time
import traceback
from collections import Counter
from concurrent.futures import ProcessPoolExecutor, as_completed
from concurrent.futures import TimeoutError as FuturesTimeout
from concurrent.futures.process import BrokenProcessPool

from . import core
from .core import HarnessError, Sim, Violation, WallTimeout
from .loop import Quiescent, StepLimit
from .tape import Tape, derive_seed, shrink

VERIF = os.path.dirname(os.path.dirname(os.path.abspath(__file__)))
EVIDENCE_DIR = os.path.join(VERIF, "evidence")
REPLAY_DIR = os.path.join(VERIF, "replays")
if os.path.realpath(core.REPO) != "/repo":
    # sensitivity runs against a patched scratch copy must not overwrite the evidence of /repo itself
    EVIDENCE_DIR = os.path.join(os.environ.get("TMPDIR", "/tmp"), "sfsim-mutant-evidence")
    REPLAY_DIR = os.path.join(os.environ.get("TMPDIR", "/tmp"), "sfsim-mutant-replays")
KNOWN_FILE = os.path.join(VERIF, "known_findings.jsonl")
DEFAULT_SEED = 20260921
# maintenance mode (tools/refresh_known.py): one minimised replay per signature and chunk, no early stop
COLLECT = bool(os.environ.get("SFSIM_COLLECT"))
if COLLECT or os.environ.get("SFSIM_NO_KNOWN"):
    EVIDENCE_DIR = os.path.join(os.environ.get("TMPDIR", "/tmp"), "sfsim-maintenance-evidence")
_RUNS = 0


def load_prop(pid: str):
    return importlib.import_module(f"sfsim.props.{pid.lower()}")


def repo_head() -> str:
    try:
        return subprocess.run(
            ["git", "-C", core.REPO, "rev-parse", "HEAD"], capture_output=True, text=True
        ).stdout.strip()
    except Exception:
        return "unknown"


# ------------------------------------------------------------------------------------------
# one run
# ------------------------------------------------------------------------------------------

def run_case(mod, seed: int, params: dict, replay: list | None = None, keep_labels=False,
             want_events=False):
    """Execute one simulated run; never raises (except KeyboardInterrupt)."""
    # cachebox 6.2 can self-deadlock in native code when the cyclic GC traverses a cache while the
    # `cached` wrapper holds the cache mutex (observed in the repo's own test-suite): never let the
    # GC run inside a simulated run; collect between runs instead.
    gc.disable()
    global _RUNS
    _RUNS += 1
    if _RUNS % 8 == 0:
        gc.collect()
    tape = Tape(seed=seed, replay=replay, keep_labels=keep_labels)
    kw = dict(getattr(mod, "SIM_KW", {}))
    sim = Sim(tape, prop=mod.ID, **kw)
    out = {"status": "ok", "seed": seed, "params": params}
    try:
        try:
            res = mod.run(sim, params) or {}
            out.update(res)
        except Violation as v:
            out.update(status="violation", klass=v.klass, signature=v.signature,
                       message=v.message[:4000], details=v.details)
        except Quiescent:
            out.update(status="violation", klass="deadlock", signature="deadlock",
                       message="loop quiescent with unfinished work",
                       details=sim.deadlock_report())
        except StepLimit as e:
            if getattr(mod, "STEP_LIMIT_IS_VIOLATION", True):
                out.update(status="violation", klass="livelock", signature="livelock",
                           message=str(e))
            else:
                out.update(status="harness_error", message=f"StepLimit {e}")
        except WallTimeout:
            tb = sys.exc_info()[2]
            if getattr(mod, "WALL_TIMEOUT", "classify") == "undecided":
                # checks whose runs spawn hundreds of real processes: running out of wall-clock on a loaded machine says
                # nothing about the code under test; the run is counted, not decided (never a violation, never success evidence)
                sim.probe("wall_timeout_undecided")
                out.update(status="ok", nontrivial=False, sample=None)
                tb = None
            fr = core.repo_frame_of(tb) if tb is not None else None
            innermost = traceback.extract_tb(tb)[-1] if tb is not None else None
            if tb is None:
                pass
            elif fr is not None and "/streamflow/" in innermost.filename and "/verif/" not in innermost.filename:
                out.update(status="violation", klass="spin", signature=f"spin:{fr}",
                           message=f"non-yielding loop at {fr} (wall cap {sim.wall_cap}s)",
                           details="".join(traceback.format_tb(tb)[-6:]))
            else:
                out.update(status="harness_error",
                           message="wall timeout outside repo code:\n" + "".join(traceback.format_tb(tb)[-8:]))
        except (KeyboardInterrupt, SystemExit):
            raise
        except BaseException as e:  # noqa
            tb = sys.exc_info()[2]
            frames = traceback.extract_tb(tb)
            fr = core.repo_frame_of(tb)
            if fr is not None and frames and os.path.realpath(frames[-1].filename).startswith(os.path.realpath(core.REPO) + os.sep):
                # raised INSIDE the code under test and not handled by it or by the check's oracle: on the unchanged tree this
                # does not happen (it would be reported here); under a changed tree it is how some defects show
                out.update(status="violation", klass="unexpected_exception", signature=f"unexpected_exception:{type(e).__name__}:{fr}",
                           message=f"{type(e).__name__}: {e} raised at {fr} escaped the run\n" + traceback.format_exc()[-1500:])
            else:
                out.update(status="harness_error",
                           message=f"{type(e).__name__}: {e}\n" + traceback.format_exc()[-3000:])
        out["steps"] = sim.loop.steps
        out["vtime"] = sim.loop.time()
        out["digest"] = sim.digest
        out["profile"] = sim.profile
        out["probes"] = dict(sim.probes)
        out["faults"] = dict(sim.faults)
        out["delays"] = sim.nondefault_delays
        out["tape"] = list(tape.values)
        if keep_labels:
            out["labels"] = list(tape.labels)
        if want_events:
            out["events"] = [list(map(_js, e)) for e in sim.events]
    finally:
        try:
            sim.close()
        except BaseException as e:  # noqa
            if out["status"] == "ok":
                out.update(status="harness_error", message=f"close failed: {e!r}")
    return out


def _js(x):
    if isinstance(x, (int, float, str, bool, type(None))):
        return x
    return repr(x)


def shrink_violation(mod, first: dict, budget_execs=250, budget_s=45.0):
    klass, sig = first["klass"], first["signature"]
    params = first["params"]

    def still(cand):
        o = run_case(mod, first["seed"], params, replay=cand)
        return o["status"] == "violation" and o["klass"] == klass and o["signature"] == sig

    best, execs = shrink(first["tape"], still, budget_execs, budget_s)
    final = run_case(mod, first["seed"], params, replay=best, keep_labels=True)
    if not (final["status"] == "violation" and final["klass"] == klass and final["signature"] == sig):
        # shrinking must never lose the violation; fall back to the original tape
        final = run_case(mod, first["seed"], params, replay=first["tape"], keep_labels=True)
        best = first["tape"]
        undecided = {"reference.timeout", "reference.too_slow", "wall_timeout_undecided"} & set(final.get("probes", {}))
        if final["status"] == "ok" and undecided:
            # the re-run could not be decided (machine too slow for this document right now): report the violation as found,
            # with its original, unshrunk tape
            first = dict(first)
            first.setdefault("labels", None)
            first["shrink_execs"] = 0
            first["orig_len"] = len(first["tape"])
            return first
        if not (final["status"] == "violation" and final["klass"] == klass and final["signature"] == sig):
            # the violation does not replay from its own tape: the simulator lost control of something
            return {"status": "harness_error", "seed": first["seed"], "params": params,
                    "message": f"violation {klass}/{sig} did not reproduce from its own tape (replay gave {final['status']} "
                               f"{final.get('klass')}/{final.get('signature')}): nondeterminism in harness or code under test; "
                               f"original message: {first['message'][:300]}"}
    final["shrink_execs"] = execs
    final["orig_len"] = len(first["tape"])
    return final


# ------------------------------------------------------------------------------------------
# worker
# ------------------------------------------------------------------------------------------

def _worker_chunk(pid: str, base_seed: int, cases: list, do_shrink: bool, max_viol: int, known_sigs=()):
    faulthandler.enable()
    mod = load_prop(pid)
    agg = {
        "n": 0, "ok": 0, "steps": 0, "vtime": 0.0, "probes": Counter(), "faults": Counter(),
        "sigs": set(), "nontrivial": 0, "profiles": Counter(), "violations": [],
        "harness_errors": [], "samples": [], "cpu_s": 0.0, "enumerated": Counter(),
    }
    t0 = time.process_time()
    for idx, params in cases:
        seed = derive_seed(base_seed, pid, idx)
        o = run_case(mod, seed, params)
        agg["n"] += 1
        agg["steps"] += o.get("steps", 0)
        agg["vtime"] += o.get("vtime", 0.0)
        agg["probes"].update(o.get("probes", {}))
        agg["faults"].update(o.get("faults", {}))
        agg["profiles"][core.PROFILES[o.get("profile", 0)]] += 1
        if params.get("enum"):
            agg["enumerated"][params["enum"]] += 1
        nontriv = o.get("nontrivial")
        if nontriv is None:
            nontriv = bool(o.get("delays")) or bool(o.get("faults"))
        if nontriv:
            agg["nontrivial"] += 1
            agg["sigs"].add(o.get("sig", o.get("digest")))
        if o["status"] == "ok":
            agg["ok"] += 1
            if len(agg["samples"]) < 2 and o.get("sample") is not None:
                agg["samples"].append({"seed": seed, "index": idx, "case": o["sample"],
                                       "steps": o["steps"], "vtime": round(o["vtime"], 6),
                                       "profile": core.PROFILES[o["profile"]],
                                       "faults": o["faults"]})
        elif o["status"] == "violation":
            if o["signature"] in known_sigs:
                # a listed known finding: report, never shrink, never stop the batch for it
                agg["violations"].append({"index": idx, "seed": seed, "klass": o["klass"],
                                          "signature": o["signature"], "message": o["message"][:300],
                                          "params": params, "tape": None, "known": True})
            elif (len([v for v in agg["violations"] if not v.get("known")]) < max_viol
                  and not (COLLECT and any(v.get("signature") == o["signature"] and v.get("tape") is not None for v in agg["violations"]))):
                if do_shrink:
                    o = shrink_violation(mod, o)
                o["index"] = idx
                if o["status"] == "harness_error":
                    agg["harness_errors"].append({"index": idx, "seed": seed, "message": o["message"], "params": params})
                else:
                    agg["violations"].append(o)
            else:
                agg["violations"].append({"index": idx, "seed": seed, "klass": o["klass"],
                                          "signature": o["signature"], "message": o["message"][:300],
                                          "params": params, "tape": None})
        else:
            agg["harness_errors"].append({"index": idx, "seed": seed, "message": o["message"], "params": params})
    agg["cpu_s"] = time.process_time() - t0
    agg["sigs"] = list(agg["sigs"])[:200000]
    return agg


# ------------------------------------------------------------------------------------------
# known findings
# ------------------------------------------------------------------------------------------

def load_known():
    out = []
    if os.environ.get("SFSIM_NO_KNOWN"):
        return out
    if os.path.exists(KNOWN_FILE):
        for line in open(KNOWN_FILE):
            line = line.strip()
            if line and not line.startswith("#"):
                out.append(json.loads(line))
    return out


def match_known(pid, klass, signature, known):
    for k in known:
        if k.get("status") == "open" and k["property"] == pid and k["signature"] == signature:
            return k
    return None


# ------------------------------------------------------------------------------------------
# batch
# ------------------------------------------------------------------------------------------

def run_batch(pid: str, tier: str, base_seed: int, workers: int | None = None,
              runs: int | None = None, budget_s: float | None = None, quiet=False):
    mod = load_prop(pid)
    cfg = dict(mod.TIERS[tier])
    if runs is not None:
        cfg["runs"] = runs
    if budget_s is not None:
        cfg["budget_s"] = budget_s
    if os.environ.get("VERIF_BUDGET_S"):
        cfg["budget_s"] = float(os.environ["VERIF_BUDGET_S"])
    workers = workers or int(os.environ.get("VERIF_WORKERS", 0)) or min(16, os.cpu_count() or 1)
    t0 = time.monotonic()
    # explicit (enumerated) cases first, then seeded random runs
    cases = []
    if hasattr(mod, "cases"):
        for p in mod.cases(tier):
            cases.append(p)
    n_enum = len(cases)
    cases += [dict(cfg.get("params", {})) for _ in range(cfg["runs"])]
    indexed = list(enumerate(cases))
    if n_enum and cfg["runs"] and getattr(mod, "INTERLEAVE_CASES", True):
        # enumerated families and seeded random runs advance at the same relative rate, so that a budget that ends early
        # cuts both proportionally (the index, hence the seed, of every case is unchanged)
        indexed.sort(key=lambda ic: (ic[0] / n_enum) if ic[0] < n_enum else ((ic[0] - n_enum) / cfg["runs"]))
    chunk = max(1, min(cfg.get("chunk", 64), (len(indexed) + workers * 4 - 1) // (workers * 4)))
    chunks = [indexed[i:i + chunk] for i in range(0, len(indexed), chunk)]
    total = {
        "n": 0, "ok": 0, "steps": 0, "vtime": 0.0, "probes": Counter(), "faults": Counter(),
        "sigs": set(), "nontrivial": 0, "profiles": Counter(), "violations": [],
        "harness_errors": [], "samples": [], "cpu_s": 0.0, "enumerated": Counter(),
    }
    budget = cfg.get("budget_s", 60)
    stopped_early = False
    # read once: workers and the final report must agree on what is listed, even if the file changes meanwhile
    known = load_known()
    known_sigs = tuple(k["signature"] for k in known if k.get("status") == "open" and k["property"] == pid)
    ctx = multiprocessing.get_context("fork")
    sys.stdout.flush()
    ex = ProcessPoolExecutor(max_workers=workers, mp_context=ctx)
    try:
        pending = {}
        it = iter(chunks)
        max_viol = 3 if not COLLECT else 8

        def submit_more():
            nonlocal stopped_early
            while len(pending) < workers * 2:
                if time.monotonic() - t0 > budget:
                    if next(it, None) is not None:
                        stopped_early = True
                    return
                c = next(it, None)
                if c is None:
                    return
                f = ex.submit(_worker_chunk, pid, base_seed, c, True, max_viol, known_sigs)
                pending[f] = c

        submit_more()
        last_progress = time.monotonic()
        stall_cap = float(os.environ.get("SFSIM_STALL_S", getattr(mod, "STALL_S", 240)))
        while pending:
            try:
                done = next(as_completed(list(pending), timeout=5))
            except (TimeoutError, FuturesTimeout):
                if time.monotonic() - last_progress > stall_cap:
                    # a worker is stuck in native code (no Python-level watchdog can fire): never
                    # report success, never hang: kill the pool and report a harness error
                    for p in list(getattr(ex, "_processes", {}).values()):
                        try:
                            p.kill()
                        except Exception:
                            pass
                    if getattr(mod, "WALL_TIMEOUT", "classify") == "undecided":
                        # checks whose runs depend on hundreds of real child processes: a worker blocked in a system call
                        # (a child that never answers) is not interruptible from Python; the remaining runs are not
                        # executed and nothing is concluded from them
                        total["probes"]["stalled_pool_undecided"] += 1
                        stopped_early = True
                    else:
                        total["harness_errors"].append({"message": f"no worker made progress for {stall_cap}s; pool killed"})
                    break
                continue
            last_progress = time.monotonic()
            pending.pop(done)
            agg = done.result()
            for k in ("n", "ok", "steps", "vtime", "nontrivial", "cpu_s"):
                total[k] += agg[k]
            for k in ("probes", "faults", "profiles", "enumerated"):
                total[k].update(agg[k])
            total["sigs"].update(agg["sigs"])
            total["violations"] += agg["violations"]
            total["harness_errors"] += agg["harness_errors"]
            if len(total["samples"]) < 3:
                total["samples"] += agg["samples"][: 3 - len(total["samples"])]
            # stop early on violations that are not known findings: enough to report
            if not COLLECT and len([v for v in total["violations"] if v.get("tape") is not None]) >= 6:
                stopped_early = True
                for f in list(pending):
                    if f.cancel():
                        pending.pop(f)
                it = iter(())
            submit_more()
    except BrokenProcessPool as e:
        total["harness_errors"].append({"message": f"worker died: {e!r}"})
    finally:
        ex.shutdown(wait=False, cancel_futures=True)
    wall = time.monotonic() - t0
    return finish(mod, pid, tier, base_seed, cfg, total, wall, n_enum, stopped_early, quiet, known)


def finish(mod, pid, tier, base_seed, cfg, total, wall, n_enum, stopped_early, quiet, known=None):
    known = load_known() if known is None else known
    os.makedirs(REPLAY_DIR, exist_ok=True)
    lines = []
    new_violations = 0
    known_seen = Counter()
    head = repo_head()
    seen_new_sigs = set()
    for v in total["violations"]:
        k = match_known(pid, v["klass"], v["signature"], known)
        if k is not None:
            known_seen[k["signature"]] += 1
            continue
        new_violations += 1
        if v.get("tape") is None or v["signature"] in seen_new_sigs:
            continue
        seen_new_sigs.add(v["signature"])
        path = os.path.join(REPLAY_DIR, f"{pid}-{v['seed']}.json")
        write_replay(path, pid, v, head)
        lines.append(f"VIOLATION property={pid} replay={path}")
        if not quiet:
            print(f"  class={v['klass']} signature={v['signature']}\n  {v['message'][:600]}")
    for sig, n in known_seen.items():
        k = next(k for k in known if k["property"] == pid and k["signature"] == sig and k["status"] == "open")
        lines.append(f"KNOWN-FINDING: property={pid} {k['what']} (seen {n}x this run; signature={sig})")
    harness = total["harness_errors"]
    evidence = {
        "property_id": pid,
        "tier": tier,
        "seed": base_seed,
        "level": mod.LEVEL,
        "wall_s": round(wall, 3),
        "violations": new_violations,
        "coverage": {
            "evaluations": total["n"],
            "distinct_nontrivial": len(total["sigs"]),
            "rule": mod.RULE,
            "samples": total["samples"] or [{"note": "no completed run"}],
            "exhaustive": False,
            "enumerated_cases": n_enum,
            "enumerated": dict(total["enumerated"]),
            "nontrivial_runs": total["nontrivial"],
            "runs_ok": total["ok"],
            "runs_per_hour": int(total["n"] / wall * 3600) if wall > 0 else 0,
            "runs_per_cpu_second": round(total["n"] / total["cpu_s"], 2) if total["cpu_s"] else None,
            "simulated_seconds": round(total["vtime"], 3),
            "loop_callbacks": total["steps"],
            "delay_profiles": dict(total["profiles"]),
            "faults_fired": dict(total["faults"]),
            "probes": dict(total["probes"]),
            "distinct_interleavings": len(total["sigs"]),
            "components": mod.COMPONENTS,
            "known_findings_seen": dict(known_seen),
            "stopped_early": stopped_early,
            "planned_runs": cfg["runs"] + n_enum,
            "harness_errors": len(harness),
            "repo_head": head,
            "pythonhashseed": os.environ.get("PYTHONHASHSEED"),
        },
        "assumptions": mod.ASSUMPTIONS,
    }
    os.makedirs(EVIDENCE_DIR, exist_ok=True)
    with open(os.path.join(EVIDENCE_DIR, f"{pid}.json"), "w") as f:
        json.dump(evidence, f, indent=1, sort_keys=True, default=str)
        f.write("\n")
    for ln in lines:
        print(ln)
    if not quiet:
        print(f"{pid} {tier}: runs={total['n']} ok={total['ok']} new_violations={new_violations} "
              f"known={sum(known_seen.values())} harness_errors={len(harness)} "
              f"distinct={len(total['sigs'])} wall={wall:.1f}s faults={dict(total['faults'])}")
    if harness:
        for h in harness[:3]:
            print(f"HARNESS-ERROR property={pid} index={h.get('index')} seed={h.get('seed')}: {h['message'][:1500]}")
        # a reproduced violation is reported as such even if other runs hit a harness error
        return 1 if new_violations else 2
    return 1 if new_violations else 0


def write_replay(path, pid, v, head):
    doc = {
        "property": pid,
        "seed": v["seed"],
        "params": v["params"],
        "pythonhashseed": os.environ.get("PYTHONHASHSEED"),
        "repo_head": head,
        "tape": v["tape"],
        "labels": v.get("labels"),
        "violation": {"class": v["klass"], "signature": v["signature"], "message": v["message"],
                      "details": v.get("details")},
        "event_log_digest": v["digest"],
        "steps": v.get("steps"),
        "shrink": {"orig_len": v.get("orig_len"), "execs": v.get("shrink_execs")},
    }
    with open(path, "w") as f:
        json.dump(doc, f, indent=1, default=str)
        f.write("\n")


def replay_file(path: str, verbose=True) -> int:
    doc = json.load(open(path))
    pid = doc["property"]
    mod = load_prop(pid)
    o = run_case(mod, doc["seed"], doc["params"], replay=doc["tape"], keep_labels=True, want_events=True)
    want = doc["violation"]
    if o["status"] == "violation" and o["klass"] == want["class"] and o["signature"] == want["signature"]:
        if o["digest"] != doc["event_log_digest"]:
            print(f"HARNESS-ERROR replay diverged: digest {o['digest']} != {doc['event_log_digest']} (same violation class)")
            return 2
        known = match_known(pid, o["klass"], o["signature"], load_known())
        if verbose:
            print(f"reproduced: class={o['klass']} signature={o['signature']} steps={o['steps']} digest={o['digest']}")
            print(o["message"][:3000])
        if known is not None:
            print(f"KNOWN-FINDING: property={pid} {known['what']}")
            return 0
        print(f"VIOLATION property={pid} replay={path}")
        return 1
    print(f"not reproduced: status={o['status']} {o.get('klass')} {o.get('signature')} {o.get('message', '')[:2000]}")
    return 0 if o["status"] == "ok" else 2
