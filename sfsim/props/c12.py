"""C12 — a job that fits is eventually scheduled (no lost wake-ups)."""
from __future__ import annotations

from . import c10 as _c10

ID = "C12"
LEVEL = "exploration"
RULE = (
    "same generated histories as C10, with scheduler retry_delay unset (pure condition-variable waits, 2/3 of runs) "
    "or 5 s. Jobs hold their resources until the controller releases a seed-chosen subset; at every quiescent point "
    "(loop idle, or 4 polling periods without a completion when retry_delay is set) no schedule() request may be "
    "waiting while one of its declared targets has enough free capacity on enough locations (harness arithmetic, "
    "counting the disk usage earlier jobs left behind); at the end every request that fits an idle target has been "
    "granted. non-trivial = more jobs than locations; distinct = distinct loop digests"
)
COMPONENTS = _c10.COMPONENTS
ASSUMPTIONS = _c10.ASSUMPTIONS
TIERS = _c10.TIERS
SIM_KW = _c10.SIM_KW


def run(sim, params):
    return _c10.run(sim, params, prop="C12")
