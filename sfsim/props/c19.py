"""C19 — concurrent recoveries share work and never deadlock."""
from __future__ import annotations

from ..core import Violation
from ..harness import recshapes as S
from ..harness import recovery as R
from ..harness.engine import canon
from . import c16 as _c16
from . import c18 as _c18

ID = "C19"
LEVEL = "exploration"
RULE = (
    "scatter/gather (2..12 elements, list produced by a job) and diamond shapes in which 2..6 jobs fail-stop in the "
    "execute phase in the same or nearby virtual instants and the failure also destroys the outputs of shared "
    "ancestors; recovery retry_delay 0 or positive; the order in which recoveries take the per-request locks is "
    "seed-chosen (identity-order seam); max_retries = 60. Oracle: the run terminates (no quiescence with parked "
    "recoveries) and does not abort; executions of every job <= 1 + own failures + loss events of its outputs "
    "(each producer re-executed at most once per loss); outputs equal the failure-free reference (a wrong output is "
    "classified exactly as 'gather ran on a strict sub-list of the reference elements' or 'other'). "
    "Cross family (enumerated_cases): two producers P, Q and consumers Z(P,Q), X(P,Q1), Y(Q,P1) "
    "with Q1(Q), P1(P) - seen from X and from Y the two common ancestors sit at different depths - where Z, X, Y fail-stop "
    "in nearby instants and a disk with the producers' (and mostly the intermediates') outputs is lost; this family "
    "decides one obligation only: the recoveries never wait for each other's per-request locks in a cycle (a deadlock "
    "in which every pending recovery is parked on a lock); its other outcomes are counted in probes cross.*. "
    "non-trivial = two recoveries overlapped in virtual time; distinct = loop digests"
)
COMPONENTS = _c16.COMPONENTS
ASSUMPTIONS = ["ancestor outputs are destroyed only by the injected fail-stop events recorded in the log"]
TIERS = {"quick": {"runs": 500, "budget_s": 55}, "thorough": {"runs": 30000, "budget_s": 480}}
SIM_KW = _c16.SIM_KW


def _wrong_output_kind(shape, got):
    """How the final output differs from the reference, computed exactly (no message matching): the consumer of the
    gather ran once on a list from which elements are missing (every element present is correct and in order), or
    anything else (wrong/duplicated/reordered element, several or no output tokens, non-scatter shapes)."""
    if shape["kind"] in ("sg", "sg2") and len(got) == 1 and got[0][0] == "0":
        elems = S.gathered_elements(shape)
        n = len(elems)
        for mask in range((1 << n) - 1):          # every strict sub-list, order kept
            sub = [e for i, e in enumerate(elems) if mask >> i & 1]
            if canon(got) == canon([("0", R.compute("/C", "0", {"x": sub}))]):
                return "gathered_list_missing_elements"
    return "other"


def cases(tier):
    # cross family: three consumers of two producers, the producers reached at different depths from two of them
    return [{"family": "cross"} for _ in range(200 if tier == "quick" else 6000)]


def _lock_cycle(report):
    """':every_recovery_parked_on_a_request_lock' when at least two recoveries are pending and ALL of them wait for a per-job
    request lock (none waits for a token): they can only be waiting for each other. The listed deadlocks always have a
    recovery that waits on a port."""
    rec = [p for p in report if any(a.startswith("failure_manager.py") for a in p["at"])]
    on_lock = [p for p in rec if any(a.startswith("locks.py") and a.endswith(":acquire") for a in p["at"][-3:])]
    return ":every_recovery_parked_on_a_request_lock" if len(rec) >= 2 and len(on_lock) == len(rec) else ""


def run(sim, params):
    t = sim.tape
    kind = ("sg2", "sg2", "diamond", "sg")[t.draw(4, "shape")] if params.get("family") != "cross" else "cross"
    if kind == "cross":
        shape = {"kind": "cross"}
        failing = [j for j in ("/Z/0", "/X/0", "/Y/0") if t.draw(4, "fail." + j) != 0] or ["/Z/0", "/X/0"]
        # a location losing its disk: the producers and (mostly) the intermediate jobs lose their outputs together
        anc = ["/P/0", "/Q/0"] + ([] if t.draw(4, "cross.lose.mid") == 0 else ["/P1/0", "/Q1/0"])
    elif kind == "diamond":
        shape = {"kind": "diamond"}
        failing = ["/B/0", "/C/0"]
        anc = ["/A/0"]
    elif kind == "sg2":
        n = (2, 3, 4, 6, 11, 12)[t.draw(6, "n")]
        shape = {"kind": "sg2", "n": n, "m": 1 + t.draw(2, "m")}
        k = 2 + t.draw(min(5, n - 1), "nfail")
        failing = [f"/B0/0.{i}" for i in t.shuffle(list(range(n)), "which")[:k]]
        anc = ["/A/0"]
    else:
        n = (2, 3, 4, 6)[t.draw(4, "n")]
        shape = {"kind": "sg", "n": n, "m": 2}
        k = 2 + t.draw(min(5, n - 1), "nfail")
        idx = t.shuffle(list(range(n)), "which")[:k]
        failing = [f"/B1/0.{i}" for i in idx]
        anc = None
    faults = {}
    for j in failing:
        lose = []
        if anc is not None and t.draw(3, "lose.anc") > 0:
            lose = list(anc)
        elif anc is None:
            lose = [j.replace("/B1/", "/B0/")] if t.draw(2, "lose.prev") else []
        faults[("execute", j)] = [{"kind": "stop", "lose": lose}] * (1 + t.draw(2, "count"))
    res = S.execute(sim, shape, faults, max_retries=60, retry_delay=(0, 0, 1, 3)[t.draw(4, "retry_delay")])
    d = S.desc(shape, faults)
    overlapped = sim.probes.get("recoveries_overlapped", 0) > 0
    rep = ":a_job_failed_repeatedly" if any(len(fl) > 1 for fl in faults.values()) else ":one_failure_per_job"
    if params.get("family") == "cross":
        # This family decides ONE obligation - the per-request locks are taken in a global order, so recoveries never wait
        # for each other in a cycle. With five jobs recovering at once the other obligations fail here in many rare ways that
        # all belong to the listed overlapping-recovery defect family; they are decided (and characterised signature by
        # signature) on the scatter and diamond shapes, not here.
        if res.status == "deadlock" and _lock_cycle(res.deadlock):
            raise Violation("deadlock", f"recoveries wait for each other's request locks; pending={[(p['task'], p['at'][-2:]) for p in res.deadlock][:6]}; {d}",
                            signature="deadlock:every_recovery_parked_on_a_request_lock")
        sim.probe("cross." + res.status)
        if res.status != "deadlock":
            sim.run(res.ctx.close())
        return {"nontrivial": overlapped, "sample": {"shape": shape, "failing": failing, "status": res.status, "executions": dict(res.ctl.execs)}}
    if res.status == "deadlock":
        raise Violation("deadlock", f"recoveries never terminated (loop quiescent; overlapped={overlapped}); "
                        f"pending={[(p['task'], p['at'][-2:]) for p in res.deadlock][:6]}; {d}",
                        signature="deadlock:" + ("concurrent_recoveries" if overlapped else "single_recovery")
                        + (":a_job_failed_repeatedly" if any(len(fl) > 1 for fl in faults.values()) else ":one_failure_per_job")
                        + _lock_cycle(res.deadlock))
    try:
        _c18.check_executions(sim, res, shape, faults, per_loss_bound=True)
    except Violation as v:
        # did two executions of the same producer overlap in time (a second recovery rolled the
        # producer back while its first re-execution was still in flight), or did the extra
        # execution start only after the previous one had completed?
        open_, overlap = {}, False
        for e in sim.events:
            if e[1] == "EXEC_START":
                overlap |= open_.get(e[2], 0) > 0
                open_[e[2]] = open_.get(e[2], 0) + 1
            elif e[1] == "EXEC_END":
                open_[e[2]] = open_.get(e[2], 0) - 1
        v.signature += ":overlapping_executions" if overlap else ":after_previous_completed"
        raise
    if res.status == "raised":
        raise Violation("run_failed", f"concurrent recoveries made the run abort; errors={sim.errors[-3:]}; {d}",
                        signature=f"run_failed:{sim.errors[-1][:2] if sim.errors else None}" + rep)
    got = R.read_output(res.out)
    want = S.reference(shape)
    if canon(got) != canon(want):
        raise Violation("wrong_output", f"output after concurrent recoveries {canon(got)[:400]} != reference {canon(want)[:400]}; {d}",
                        signature="wrong_output:" + _wrong_output_kind(shape, got) + rep)
    sim.run(res.ctx.close())
    return {"nontrivial": overlapped, "sample": {"shape": shape, "failing": failing, "executions": dict(res.ctl.execs)}}
