"""C08 — saving then loading a workflow reproduces it exactly."""
from __future__ import annotations

import asyncio
import types

from ..core import Violation
from ..harness import dag
from ..harness import recovery as R
from ..harness import recshapes as S
from ..harness.engine import canon, make_context, raw_db
from ..harness.sched import SimHardwareRequirement

from streamflow.core.config import BindingConfig
from streamflow.core.deployment import DeploymentConfig, FilterConfig, Target
from streamflow.core.workflow import Job, Port, Status, Step, Token, Workflow
from streamflow.persistence.loading_context import DefaultDatabaseLoadingContext, WorkflowBuilder
from streamflow.workflow.combinator import LoopCombinator, LoopTerminationCombinator
from streamflow.workflow.step import CombinatorStep, LoopCombinatorStep, ScheduleStep
from streamflow.workflow.token import IterationTerminationToken, JobToken, ListToken, ObjectToken, TerminationToken

ID = "C08"
LEVEL = "exploration"
RULE = (
    "each run draws a workflow graph - a DAG plan of the C04 generator (transformers, scatter/gather incl. depth 2, "
    "dot/cartesian combinators, conditionals), or a recovery shape (deploy/schedule/transfer/execute pipelines with "
    "binding configs, targets, filters, hardware requirement, commands, output processors), optionally with a loop "
    "combinator pair - plus token trees of every token class (nested list/object/job/file tokens with unicode "
    "strings and JSON scalars); a second workflow sharing the same DeploymentConfig/Target/FilterConfig objects is "
    "saved CONCURRENTLY (enumerated families: incremental - saved, extended with ports on already persisted steps, saved again; shared -  the token trees share inner token objects between "
    "containers, so that two savers meet on one unsaved token), and two loads + one deep copy run concurrently, all through the FIFO database server with "
    "seeded service times. Oracle: structural equality (types, names, wiring, every public attribute, nested "
    "objects) original <-> loaded; deep copy equal with no persistent ids; exactly one row per shared entity; after "
    "mutating every mutable attribute of one load, a third load still equals the original and the other load is "
    "unchanged. non-trivial = non-zero database latencies applied; distinct = loop digests"
)
COMPONENTS = {
    "real": ["Workflow/Step/Port/Token.save and .load", "all step/combinator/token classes' _save_additional_params/_load", "DefaultDatabaseLoadingContext", "WorkflowBuilder",
             "DeploymentConfig/Target/FilterConfig/BindingConfig/Config persistence", "SqliteDatabase + caches"],
    "stub": ["aiosqlite thread -> FIFO server", "harness step/command/processor subclasses (persistable like plugin classes)"],
}
ASSUMPTIONS = ["CWL-specific classes are round-tripped by the translator-built graphs of the C29 generator (see C29 evidence), not here"]
TIERS = {"quick": {"runs": 1200, "budget_s": 50}, "thorough": {"runs": 80000, "budget_s": 420}}
SIM_KW = {"max_steps": 600_000, "wall_cap": 60.0}

SKIP = {"workflow", "persistent_id", "_saving", "queues", "token_list", "context", "_log_level", "_token_values", "step",
        "size_map", "token_map", "termination_map", "iteration_termination_checklist", "iteration_map", "boundaries"}


def structure(obj, depth=0):
    """Canonical, JSON-able description of an entity (attributes only; identities removed)."""
    if depth > 12:
        return "<deep>"
    if isinstance(obj, bool):
        return int(obj)  # SQLite stores booleans as integers; True == 1 in Python
    if obj is None or isinstance(obj, (int, float, str)):
        return obj
    if isinstance(obj, Status):
        return f"Status.{obj.name}"
    if isinstance(obj, (list, tuple)):
        return [structure(x, depth + 1) for x in obj]
    if isinstance(obj, (set, frozenset)):
        return sorted(canon(structure(x, depth + 1)) for x in obj)
    if isinstance(obj, dict):
        return {str(k): structure(v, depth + 1) for k, v in obj.items()}
    if isinstance(obj, Port):
        return {"__port__": obj.name, "__type__": type(obj).__name__}
    if isinstance(obj, Workflow):
        return {"__workflow__": obj.name}
    if isinstance(obj, Token):
        return token_structure(obj)
    if isinstance(obj, (types.FunctionType, types.MethodType, asyncio.Event, asyncio.Lock)):
        return "<callable/primitive>"
    d = {"__type__": type(obj).__module__ + "." + type(obj).__qualname__}
    names = list(getattr(obj, "__dict__", {}).keys())
    for cls in type(obj).__mro__:
        names += [s for s in getattr(cls, "__slots__", ()) if isinstance(s, str)]
    for n in sorted(set(names)):
        if n in SKIP or n.startswith("__"):
            continue
        try:
            v = getattr(obj, n)
        except AttributeError:
            continue
        d[n] = structure(v, depth + 1)
    return d


def token_structure(tk):
    d = {"__token__": type(tk).__module__ + "." + type(tk).__qualname__, "tag": tk.tag, "recoverable": tk.recoverable}
    if isinstance(tk, ListToken):
        d["value"] = [token_structure(x) for x in tk.value]
    elif isinstance(tk, ObjectToken):
        d["value"] = {k: token_structure(v) for k, v in tk.value.items()}
    elif isinstance(tk, JobToken):
        j = tk.value
        d["value"] = {"name": j.name, "workflow_id": j.workflow_id, "input_directory": j.input_directory, "output_directory": j.output_directory,
                      "tmp_directory": j.tmp_directory, "inputs": {k: token_structure(v) for k, v in j.inputs.items()}}
    elif isinstance(tk, TerminationToken):
        d["value"] = f"Status.{tk.value.name}"
    else:
        d["value"] = structure(tk.value)
    return d


def workflow_structure(wf):
    return {
        "name": wf.name, "type": type(wf).__name__, "config": structure(wf.config), "output_ports": structure(wf.output_ports),
        "ports": {n: {"type": type(p).__module__ + "." + type(p).__qualname__, "attrs": structure(p)} for n, p in sorted(wf.ports.items())},
        "steps": {n: {"in": dict(sorted(s.input_ports.items())), "out": dict(sorted(s.output_ports.items())), "attrs": structure(s)}
                  for n, s in sorted(wf.steps.items())},
    }


def mutate_all(obj, seen=None, depth=0):
    """Mutate every mutable container reachable from a loaded entity."""
    seen = seen if seen is not None else set()
    if id(obj) in seen or depth > 10 or obj is None or isinstance(obj, (bool, int, float, str, Status, Workflow)):
        return
    seen.add(id(obj))
    if isinstance(obj, list):
        for x in list(obj):
            mutate_all(x, seen, depth + 1)
        obj.append("__mutated__")
    elif isinstance(obj, dict):
        for x in list(obj.values()):
            mutate_all(x, seen, depth + 1)
        obj["__mutated__"] = True
    elif isinstance(obj, set):
        obj.add("__mutated__")
    elif hasattr(obj, "__dict__") and not isinstance(obj, (types.FunctionType, asyncio.Event, asyncio.Lock, Port)):
        for n, v in list(vars(obj).items()):
            if n in ("workflow", "context", "queues", "input_ports", "output_ports", "step"):
                continue
            mutate_all(v, seen, depth + 1)


def cases(tier):
    # second family: token trees in which inner token OBJECTS are shared between containers that are saved concurrently
    n = 400 if tier == "quick" else 30000
    # incremental family: the workflow is saved, then ports are attached to steps that are already persisted, then it is saved again
    return [{"share_tokens": True} for _ in range(n)] + [{"incremental": True} for _ in range(n // 2)]


def gen_token(t, depth=0, pool=None):
    if pool is not None and depth >= 1 and pool and t.draw(3, "tok.share") == 0:
        return pool[t.draw(len(pool), "tok.shared")]
    tok = _gen_token(t, depth, pool)
    if pool is not None and depth >= 1:
        pool.append(tok)
    return tok


def _gen_token(t, depth, pool):
    k = t.draw(7 if depth < 2 else 3, "tok.kind")
    tag = ("0", "0.3", "0.10.2")[t.draw(3, "tok.tag")]
    scal = (None, True, 0, -7, 3.5, "", "plain", "ünï©ødé ✓", "quote\"'\\n", [1, "a", None], {"k": [1, {"z": "é"}]})
    if k <= 2:
        return Token(scal[t.draw(len(scal), "tok.scalar")], tag=tag, recoverable=bool(t.draw(2, "tok.rec")))
    if k == 3:
        return ListToken([gen_token(t, depth + 1, pool) for _ in range(t.draw(4, "tok.n"))], tag=tag)
    if k == 4:
        return ObjectToken({f"k{i}é": gen_token(t, depth + 1, pool) for i in range(t.draw(3, "tok.n"))}, tag=tag)
    if k == 5:
        return R.SimFileToken("/some/päth with space/file.txt", tag=tag, recoverable=bool(t.draw(2, "tok.rec")))
    job = Job(name=f"/step ü/{tag}", workflow_id=1, inputs={"x": gen_token(t, depth + 1, pool), "y": gen_token(t, depth + 1, pool)},
              input_directory="/in dir", output_directory=None, tmp_directory="/tmp/ü")
    return JobToken(job, tag=tag)


def run(sim, params):
    t = sim.tape
    family = ("dag", "dag", "recovery")[t.draw(3, "family")]
    with_loop = t.draw(3, "with.loop") == 2
    with_filters = t.draw(2, "with.filters")
    ntok = 1 + t.draw(5, "ntokens")
    pool = [] if params.get("share_tokens") else None
    toks = [gen_token(t, 0, pool) for _ in range(ntok)]
    extra = [TerminationToken(Status.RECOVERED), IterationTerminationToken("0.4")] if t.draw(2, "special.tokens") else []
    plan = dag.generate(t, max_nodes=8) if family == "dag" else None
    shape = S.gen_shape(t) if family == "recovery" else None
    info = {"family": family, "loop": with_loop, "shape": shape, "plan": plan.describe() if plan else None}

    async def main():
        ctx = make_context(sim)
        db = ctx.database
        wf = Workflow(context=ctx, name="wf-ünï", config={"k": [1, {"n": None}], "s": "é"})
        shared_cfg = None
        if family == "dag":
            dag.build(plan, wf)
        else:
            b = R.Builder(sim, ctx, wf)
            p_in, nin, out = S.build(shape, b)
            wf.output_ports["out"] = out.name
            shared_cfg = b.cfg
            for st in wf.steps.values():
                if isinstance(st, ScheduleStep):
                    st.hardware_requirement = SimHardwareRequirement({"/A/0": [1.0, 2.0, 3.0, 4.0]})
                    # bindings that fix some of the job directories (distinct values, some left unset; no tape draw)
                    k = sum(map(ord, st.name)) % 4
                    st.input_directory = (None, "/fix ü/in", None, "/fix/in2")[k]
                    st.output_directory = ("/fix ü/out", "/fix/out", None, "/fix/out3")[k]
                    st.tmp_directory = (None, "/fix/tmp", "/fix/tmp2", None)[k]
                    if with_filters:
                        st.binding_config = BindingConfig(
                            targets=list(st.binding_config.targets) + [Target(deployment=b.cfg, locations=2, service="svc", workdir="/w ü")],
                            filters=[FilterConfig(name="f1", type="matching", config={"filters": [{"target": "simlocal", "job": [{"port": "x", "match": "a"}]}]})])
        if with_loop:
            lc = LoopCombinator(workflow=wf, name="/loop-c")
            lc.add_item("a")
            lc.add_item("b")
            ls = wf.create_step(LoopCombinatorStep, name="/loop-step", combinator=lc)
            tc = LoopTerminationCombinator(workflow=wf, name="/loop-t")
            tc.add_item("a")
            tc.add_output_item("a")
            tc.add_output_item("b")
            ts = wf.create_step(CombinatorStep, name="/loop-term", combinator=tc)
            for n in ("a", "b"):
                pi, po = wf.create_port(), wf.create_port()
                ls.add_input_port(n, pi)
                ls.add_output_port(n, po)
                ts.add_output_port(n, pi)
            ts.add_input_port("a", ls.get_output_port("a"))
        # a second workflow sharing config objects, saved concurrently
        wf2 = Workflow(context=ctx, name="wf-second", config={})
        if shared_cfg is not None:
            b2 = R.Builder.__new__(R.Builder)
            b2.sim, b2.ctx, b2.wf, b2.workdir, b2.cfg = sim, ctx, wf2, b.workdir, shared_cfg
            from streamflow.workflow.step import DeployStep
            b2.deploy = wf2.create_step(DeployStep, name="/__deploy__/simlocal", deployment_config=shared_cfg)
            b2.static = []
            b2.exec_step("/Z", {"x": wf2.create_port()})
        else:
            dag.build(dag.generate(t, max_nodes=3), wf2)
        await asyncio.gather(asyncio.create_task(wf.save(db)), asyncio.create_task(wf2.save(db)))
        if params.get("incremental"):
            # build-save-extend-save, as a translator that persists while it builds: new ports on steps that already have a row
            from streamflow.workflow.step import ExecuteStep, Transformer

            grown = [st for st in wf.steps.values() if isinstance(st, (Transformer, ExecuteStep))][:2]
            for i, st in enumerate(grown):
                late_port = wf.create_port()
                st.add_input_port(f"late_in{i}", late_port)
                # (only wiring is added: an output port of an ExecuteStep would also change the step's parameters - its output
                # processors - and a second save does not rewrite the row of a persisted step; that is outside this family)
            sim.probe("incremental_save", len(grown))
            await wf.save(db)
        port_id = next(iter(wf.ports.values())).persistent_id
        await asyncio.gather(*(asyncio.create_task(tk.save(db, port_id=port_id)) for tk in toks + extra))
        original = workflow_structure(wf)
        raw = raw_db(ctx)
        # exactly one row per entity
        for table, n in (("workflow", 2), ("step", len(wf.steps) + len(wf2.steps)), ("port", len(wf.ports) + len(wf2.ports))):
            got = raw.execute(f"SELECT COUNT(*) FROM {table}").fetchone()[0]
            if got != n:
                raise Violation("duplicate_or_missing_rows", f"table {table} has {got} rows for {n} entities; case={canon(info)[:600]}",
                                signature=f"row_count:{table}")
        if shared_cfg is not None:
            ndep = raw.execute("SELECT COUNT(*) FROM deployment WHERE name='simlocal'").fetchone()[0]
            if ndep != 1:
                raise Violation("duplicate_or_missing_rows", f"the shared DeploymentConfig was inserted {ndep} times by two concurrent saves", signature="row_count:deployment")

        async def load():
            lc_ = DefaultDatabaseLoadingContext(db)
            w = await lc_.load_workflow(wf.persistent_id)
            tks = await asyncio.gather(*(asyncio.create_task(lc_.load_token(tk.persistent_id)) for tk in toks + extra))
            return w, tks

        async def deep():
            bld = WorkflowBuilder(db, deep_copy=True)
            return await bld.load_workflow(wf.persistent_id)

        try:
            (l1, t1), (l2, t2), dc = await asyncio.gather(asyncio.create_task(load()), asyncio.create_task(load()), asyncio.create_task(deep()))
        except (Violation, asyncio.CancelledError):
            raise
        except Exception as e:
            from ..core import repo_frame_of

            fr = repo_frame_of(e.__traceback__)
            if fr is None:
                raise
            raise Violation("load_raised", f"loading what was just saved raised {type(e).__name__}: {e} at {fr}; tokens={[canon(token_structure(x))[:200] for x in toks]}; case={canon(info)[:300]}",
                            signature=f"load_raised:{type(e).__name__}:{fr}")
        for label, w in (("load#1", l1), ("load#2", l2), ("deep copy", dc)):
            got = workflow_structure(w)
            if canon(got) != canon(original):
                diff = _first_diff(original, got)
                sig = diff.split(' ')[0].split('[')[0][:60]
                # one port wired to two inputs of the same step: the dependency table is keyed by
                # (step, port), so the second input name cannot be stored
                parts = diff.split(" ")[0].split(".")
                if ".input_ports." in diff or ".in." in diff:
                    stname = next((n for n in wf.steps if f".steps.{n}." in diff), None)
                    if stname and len(set(wf.steps[stname].input_ports.values())) < len(wf.steps[stname].input_ports):
                        sig = "same_port_wired_to_two_inputs_of_one_step"
                raise Violation("roundtrip_mismatch", f"{label} differs from the saved workflow at {diff}; case={canon(info)[:500]}",
                                signature=f"roundtrip_mismatch:{sig}")
        for label, tl in (("load#1", t1), ("load#2", t2)):
            for a, bb in zip(toks + extra, tl):
                if canon(token_structure(a)) != canon(token_structure(bb)):
                    raise Violation("token_roundtrip_mismatch", f"{label}: token {canon(token_structure(a))[:300]} loaded as {canon(token_structure(bb))[:300]}",
                                    signature=f"token_roundtrip_mismatch:{type(a).__name__}")
        if dc.persistent_id is not None or any(s.persistent_id is not None for s in dc.steps.values()) or any(p.persistent_id is not None for p in dc.ports.values()):
            raise Violation("deep_copy_has_identity", "the deep copy carries persistent ids", signature="deep_copy_has_identity")
        # independence
        for s in l1.steps.values():
            mutate_all(s)
        for tk in t1:
            if isinstance(tk.value, (list, dict)):
                mutate_all(tk.value)
        l3, t3 = await load()
        if canon(workflow_structure(l3)) != canon(original):
            diff = _first_diff(original, workflow_structure(l3))
            raise Violation("load_not_independent", f"after mutating one loaded copy a fresh load differs from the stored record at {diff}; case={canon(info)[:400]}",
                            signature="load_not_independent:fresh_load")
        if canon(workflow_structure(l2)) != canon(original):
            diff = _first_diff(original, workflow_structure(l2))
            raise Violation("load_not_independent", f"mutating one loaded copy changed the other loaded copy at {diff}", signature="load_not_independent:other_load")
        for a, bb in zip(toks + extra, t3):
            if canon(token_structure(a)) != canon(token_structure(bb)):
                raise Violation("load_not_independent", f"token changed after mutating a loaded copy: {canon(token_structure(bb))[:300]}", signature="load_not_independent:token")
        await ctx.close()

    sim.run(main())
    return {"sample": {"family": family, "loop": with_loop, "shape": shape, "ops": [n["op"] for n in plan.nodes] if plan else None, "tokens": [type(x).__name__ for x in toks]}}


def _first_diff(a, b, path=""):
    if type(a) is not type(b):
        return f"{path} type {type(a).__name__} vs {type(b).__name__}: {canon(a)[:120]} vs {canon(b)[:120]}"
    if isinstance(a, dict):
        for k in sorted(set(a) | set(b)):
            if k not in a or k not in b:
                return f"{path}.{k} present only on one side ({canon(a.get(k))[:100]} vs {canon(b.get(k))[:100]})"
            d = _first_diff(a[k], b[k], f"{path}.{k}")
            if d:
                return d
        return ""
    if isinstance(a, list):
        if len(a) != len(b):
            return f"{path} length {len(a)} vs {len(b)}: {canon(a)[:120]} vs {canon(b)[:120]}"
        for i, (x, y) in enumerate(zip(a, b)):
            d = _first_diff(x, y, f"{path}[{i}]")
            if d:
                return d
        return ""
    return "" if a == b else f"{path} {a!r} vs {b!r}"
