"""C26 — deployments follow a safe lifecycle under concurrent requests."""
from __future__ import annotations

import asyncio

from ..core import Violation
from ..harness import sched  # registers the fake connector classes
from ..harness.engine import canon, make_context

from streamflow.core.config import Config
from streamflow.core.deployment import DeploymentConfig, WrapsConfig
from streamflow.core.exception import WorkflowExecutionException

ID = "C26"
LEVEL = "exploration"
RULE = (
    "each run draws a set of fake deployments out of {I (plain), W wraps I, W2 wraps W, J (plain)}, lazy or eager "
    "each, with seed-chosen deploy/undeploy durations and at most one deployment whose deploy() raises, then 1..4 "
    "concurrent requests (deploy / use / undeploy / undeploy_all, seed-chosen start offsets; all 1-3 request "
    "orderings arise from the latencies), then a final undeploy_all. Oracle over the connector call log "
    "(sequence-numbered by the simulator): per deployment name at most one live connector instance at any instant; "
    "an eager deploy() returns only after its connector's deploy completed; an inner connector's undeploy never "
    "starts while a connector wrapping it is live; after undeploy_all every deployed connector was undeployed "
    "exactly once; with a failing deployment every request that needs it raises and the run never goes quiescent "
    "with parked requests. non-trivial = at least two requests overlapped in virtual time; distinct = loop digests"
)
COMPONENTS = {
    "real": ["DefaultDeploymentManager (deploy, _deploy, _inner_deploy, undeploy, undeploy_all)", "FutureConnector", "ConnectorWrapper base"],
    "stub": ["SimConnector / SimWrapper: instrumented fake connectors with simulated deploy/undeploy durations and injected deploy failures"],
}
ASSUMPTIONS = ["'live' = from the end of connector.deploy() to the end of connector.undeploy()"]
TIERS = {"quick": {"runs": 4000, "budget_s": 50}, "thorough": {"runs": 300000, "budget_s": 420}}
SIM_KW = {"max_steps": 200_000, "wall_cap": 30.0}

NAMES = ("I", "W", "W2", "J")
WRAPS = {"W": "I", "W2": "W"}


def run(sim, params):
    t = sim.tape
    present = ["I"]
    if t.draw(3, "has.W"):
        present.append("W")
        if t.draw(2, "has.W2"):
            present.append("W2")
    if t.draw(3, "has.J") == 2:
        present.append("J")
    lazy = {n: bool(t.draw(3, f"lazy.{n}") == 2) for n in present}
    dur = {n: (t.draw(4, f"dt.{n}") * 5, t.draw(4, f"ut.{n}") * 5) for n in present}
    failing = None
    if t.draw(4, "fail?") == 3:
        failing = present[t.draw(len(present), "fail.which")]
    nreq = 1 + t.draw(4, "nreq")
    reqs = []
    for i in range(nreq):
        kind = ("deploy", "deploy", "deploy", "use", "undeploy", "undeploy_all")[t.draw(6, f"r{i}.kind")]
        name = present[t.draw(len(present), f"r{i}.name")]
        reqs.append({"kind": kind, "name": name, "at": t.draw(4, f"r{i}.at") * 3})
    info = {"present": present, "lazy": lazy, "dur": dur, "failing": failing, "reqs": reqs}

    def needs(name):
        out = [name]
        while out[-1] in WRAPS:
            out.append(WRAPS[out[-1]])
        return out

    state = {}

    async def main():
        ctx = make_context(sim)
        ctx.config["deployments"] = {}
        cfgs = {}
        for n in present:
            typ = "simwrap" if n in WRAPS else "sim"
            conf = {"deploy_time": dur[n][0], "undeploy_time": dur[n][1], "fail_deploy": n == failing}
            if typ == "sim":
                conf["locations"] = [{"name": f"{n}-l0", "kind": "slots", "slots": 1}]
            else:
                conf["level"] = {"cores": 1.0, "memory": 1.0, "storage": {"/": (1.0, None)}}
            ctx.config["deployments"][n] = {
                "type": typ, "config": conf, "lazy": lazy[n], "external": False,
                "scheduling_policy": Config(name="__DEFAULT__", type="data_locality", config={}),
                "workdir": None, "wraps": WRAPS.get(n),
            }
            cfgs[n] = DeploymentConfig(name=n, type=typ, config=dict(conf), lazy=lazy[n],
                                       wraps=WrapsConfig(deployment=WRAPS[n]) if n in WRAPS else None)
        dm = ctx.deployment_manager
        outcomes = []

        async def request(i, r):
            await asyncio.sleep(r["at"])
            t0 = sim.loop.steps
            sim.log("REQ.start", i, r["kind"], r["name"])
            try:
                if r["kind"] == "deploy":
                    await dm.deploy(cfgs[r["name"]])
                    conn = dm.get_connector(r["name"])
                    ok_live = None
                    if not lazy[r["name"]]:
                        ok_live = getattr(conn, "live", None)
                    outcomes.append((i, "ok", ok_live, conn is not None))
                elif r["kind"] == "use":
                    await dm.deploy(cfgs[r["name"]])
                    conn = dm.get_connector(r["name"])
                    await conn.get_available_locations()
                    outcomes.append((i, "ok", None, True))
                elif r["kind"] == "undeploy":
                    await dm.undeploy(r["name"])
                    outcomes.append((i, "ok", None, True))
                else:
                    await dm.undeploy_all()
                    outcomes.append((i, "ok", None, True))
            except (WorkflowExecutionException, RuntimeError) as e:
                outcomes.append((i, "raised", type(e).__name__, str(e)[:80]))
            except Exception as e:  # anything else escaping the manager is a crash, not a reported failure
                from ..core import repo_frame_of

                outcomes.append((i, "crashed", type(e).__name__, f"{repo_frame_of(e.__traceback__)}: {e!r}"[:160]))
            sim.log("REQ.end", i, r["kind"], r["name"])

        await asyncio.gather(*(asyncio.create_task(request(i, r), name=f"req{i}") for i, r in enumerate(reqs)))
        sim.log("PHASE2")
        state.update(ctx=ctx, outcomes=outcomes, dm=dm)
        try:
            await dm.undeploy_all()
        except Exception as e:
            from ..core import repo_frame_of

            outcomes.append((-1, "crashed", type(e).__name__, f"{repo_frame_of(e.__traceback__)}: {e!r}"[:160]))
        sim.log("DONE")

    from ..loop import Quiescent

    try:
        sim.run(main())
    except Quiescent:
        # a parked request: name the obligation by where the requests are parked
        rep = sim.deadlock_report()
        parked = sorted({next((a for a in reversed(p["at"]) if a.startswith("manager.py") or a.startswith("future.py")), "?").rsplit(":", 2)[0] + ":" +
                         next((a for a in reversed(p["at"]) if a.startswith("manager.py") or a.startswith("future.py")), "?:?:?").rsplit(":", 1)[1]
                         for p in rep if p["task"].startswith("req")})
        cause = "after_failed_deploy" if failing is not None else "no_failure"
        raise Violation("deadlock", f"requests parked forever at {parked} ({cause}); pending={[(p['task'], p['at'][-3:]) for p in rep][:5]}; case={canon(info)}",
                        signature=f"deadlock:{cause}")
    ev = sim.events
    case = f"case={canon(info)}"
    for i, st, a, b in state["outcomes"]:
        if st == "crashed":
            what = "final undeploy_all" if i < 0 else f"request #{i} {reqs[i]['kind']}({reqs[i]['name']})"
            raise Violation("manager_exception", f"{what} raised {a} at {b}; {case}", signature=f"manager_exception:{a}:{':'.join(b.split(':')[:2])}")
    # ---- reconstruct connector instance intervals -------------------------------------------------
    inst = {}  # (name, id) -> dict(start, end, ustart, uend, failed)
    for e in ev:
        step, kind = e[0], e[1]
        if kind.startswith("deploy.") or kind.startswith("undeploy."):
            name, cid = e[2], e[3]
            d = inst.setdefault((name, cid), {"name": name, "dstart": None, "dend": None, "ustart": [], "uend": [], "failed": False})
            if kind == "deploy.start":
                d["dstart"] = step
            elif kind == "deploy.end":
                d["dend"] = step
            elif kind == "deploy.fail":
                d["failed"] = True
                d["dfail"] = step
            elif kind == "undeploy.start":
                d["ustart"].append(step)
            elif kind == "undeploy.end":
                d["uend"].append(step)
    INF = 10 ** 12
    # 1. at most one live instance per name
    byname = {}
    for d in inst.values():
        if d["dend"] is not None:
            byname.setdefault(d["name"], []).append((d["dstart"], d["uend"][0] if d["uend"] else INF))
    for name, ivs in byname.items():
        ivs.sort()
        for (a0, a1), (b0, b1) in zip(ivs, ivs[1:]):
            if b0 < a1:
                first = next(d for d in inst.values() if d["name"] == name and d["dstart"] == a0)
                during_undeploy = bool(first["ustart"]) and first["ustart"][0] <= b0
                raise Violation("two_live_connectors", f"deployment {name}: a second connector started deploying at step {b0} while the first is live until {a1} "
                                f"({'its undeploy was in progress' if during_undeploy else 'it was fully deployed'}); {case}",
                                signature="two_live_connectors:" + ("redeploy_during_undeploy" if during_undeploy else "while_deployed"))
    # 2. eager deploy() returns only after its connector deployed
    for i, st, live, has in state["outcomes"]:
        r = reqs[max(i, 0)]
        if i >= 0 and r["kind"] == "deploy" and st == "ok" and not lazy[r["name"]]:
            if live is not True:
                raise Violation("deploy_returned_early", f"request #{i} deploy({r['name']}) returned while its connector is not deployed (live={live}, connector present={has}); {case}",
                                signature="deploy_returned_early")
    # 2b. a request is forwarded to a (lazy) connector only once its deployment completed
    for e in ev:
        if e[1] == "use" and not e[4]:
            d = inst.get((e[2], e[3]))
            if d is not None and d["dstart"] is not None and d["dstart"] <= e[0] and (d["dend"] is None or e[0] < d["dend"]) and not d["ustart"] and not (d["failed"] and d["dfail"] <= e[0]):
                raise Violation("used_before_deployed", f"a request reached the connector of {e[2]} at step {e[0]} while its deploy() (started at {d['dstart']}) "
                                f"had not completed (end={d['dend']}); {case}", signature="used_before_deployed")
    # 3. inner never undeployed while a wrapper of it is live
    for d in inst.values():
        outer = d["name"]
        # (a wrapper that is never undeployed at all is reported by obligation 4 below)
        if outer in WRAPS and d["dend"] is not None and d["uend"]:
            inner = WRAPS[outer]
            o_live = (d["dend"], d["uend"][0] if d["uend"] else INF)
            for di in inst.values():
                if di["name"] == inner:
                    for us in di["ustart"]:
                        if o_live[0] <= us < o_live[1]:
                            # was the wrapper re-requested while its own undeploy was in progress?
                            # (then the manager tracks a second, new entry for the same name: the
                            # listed redeploy-during-undeploy defect)
                            redeploy = any(e[1] == "REQ.start" and e[3] in ("deploy", "use") and outer in needs(e[4])
                                           and d["ustart"][0] <= e[0] <= d["uend"][0] for e in ev)
                            raise Violation("inner_undeployed_while_wrapper_live",
                                            f"connector of {inner} started undeploying at step {us} while wrapper {outer} is live during {o_live}"
                                            f"{' (wrapper re-requested during its undeploy)' if redeploy else ''}; {case}",
                                            signature="inner_undeployed_while_wrapper_live" + (":redeploy_during_undeploy" if redeploy else ""))
    # 4. after the final undeploy_all: every deployed connector undeployed exactly once
    for d in inst.values():
        if d["dend"] is not None:
            if len(d["ustart"]) != 1 or len(d["uend"]) != 1:
                n = len(d["ustart"])
                if n == 0:
                    why = ("lazy_deploy_in_flight_at_undeploy" if lazy[d["name"]] else
                           "inner_of_failed_deployment" if failing is not None and d["name"] in needs(failing)[1:] else "other")
                else:
                    why = "more_than_once"
                raise Violation("undeploy_count", f"connector of {d['name']} deployed at {d['dend']} was undeployed {n} times ({why}); {case}",
                                signature=f"undeploy_count:{min(n, 2)}:{why}")
    # 4b. an undeploy_all REQUEST (not only the final one) leaves no eager connector live whose deploy() call had already
    #     started when the request began - unless a later request asked for that deployment again
    for e in ev:
        if e[1] == "REQ.start" and e[3] == "undeploy_all":
            i, start = e[2], e[0]
            end = next((x[0] for x in ev if x[1] == "REQ.end" and x[2] == i), None)
            if end is None or not any(o[0] == i and o[1] == "ok" for o in state["outcomes"]):
                continue
            for d in inst.values():
                if lazy[d["name"]] or d["failed"] or d["dstart"] is None or d["dend"] is None or d["dstart"] >= start:
                    continue
                if any(us <= end for us in d["ustart"]):
                    continue
                again = any(x[1] == "REQ.start" and x[3] in ("deploy", "use") and d["name"] in needs(x[4]) and x[0] > start for x in ev)
                # a request for a WRAPPER of it that overlaps the undeploy_all legitimately keeps the inner deployment
                ends = {x[2]: x[0] for x in ev if x[1] == "REQ.end"}
                wrapper_busy = any(x[1] == "REQ.start" and x[3] in ("deploy", "use") and x[4] != d["name"] and d["name"] in needs(x[4])
                                   and x[0] < end and ends.get(x[2], INF) > start for x in ev)
                # another undeploy / undeploy_all overlapping this one may be the one that finishes the job after this one returned
                other_undeploy = any(x[1] == "REQ.start" and x[3] in ("undeploy", "undeploy_all") and x[2] != i
                                     and x[0] < end and ends.get(x[2], INF) > start for x in ev)
                if failing is not None or again or wrapper_busy or other_undeploy:
                    continue
                raise Violation("undeploy_all_left_live", f"request #{i} undeploy_all ran during steps {start}..{end}; the eager connector of {d['name']} "
                                f"(deploy() started at {d['dstart']}, completed at {d['dend']}) was not undeployed by it (undeploys: {d['ustart']}); {case}",
                                signature="undeploy_all_left_live:eager_connector")
    # 5. failures are reported to every request that needs the failing deployment
    if failing is not None:
        sim.fault("failing_deployment_configured")
        for i, st, a, b in state["outcomes"]:
            r = reqs[max(i, 0)]
            if i >= 0 and r["kind"] == "deploy" and failing in needs(r["name"]):
                must_fail = all(not lazy[n] for n in needs(r["name"])[: needs(r["name"]).index(failing) + 1])
                if must_fail and st != "raised":
                    raise Violation("failed_deploy_not_reported", f"request #{i} deploy({r['name']}) returned normally although eager deployment {failing} failed to deploy; {case}",
                                    signature="failed_deploy_not_reported")
    sim.run(state["ctx"].close())
    # overlap probe
    spans = []
    for e in ev:
        if e[1] == "REQ.start":
            spans.append([e[0], None])
        elif e[1] == "REQ.end":
            for s in spans:
                if s[1] is None:
                    s[1] = e[0]
                    break
    overl = sum(1 for a in spans for b in spans if a is not b and a[0] < (b[1] or INF) and b[0] < (a[1] or INF)) > 0
    return {"nontrivial": overl, "sample": info}
