"""C17 — retries are bounded and exhausted retries fail the workflow."""
from __future__ import annotations

from ..core import Violation
from ..harness import recshapes as S
from ..harness import recovery as R
from ..harness.engine import canon
from . import c16 as _c16

ID = "C17"
LEVEL = "fault_enumeration"
LEVEL_TEXT = ("failure counts 0..limit+2 enumerated for every (job, phase, limit 1..3) of small shapes; other shapes, limits up to 5, "
              "second failing jobs and schedules sampled by seed; evidence, not proof")
RULE = (
    "shapes as C16; one job (optionally a second) keeps failing in a chosen phase (soft or fail-stop of its own "
    "data) a chosen number of times c in 0..limit+2 with max_retries = limit in 1..5 (enum=counts: all c for limit "
    "1..3 on 3 small shapes), under the rollback failure manager, or one failure under the dummy/no failure "
    "manager. Oracle: no job is attempted (scheduled) or executed more than limit times (the first attempt counts: the "
    "manager's counter starts at 1); c >= limit => executor.run() raises (no quiescence, no livelock within the step cap); c < limit => "
    "the run completes with the reference outputs; without a rollback manager the first failure raises and no "
    "command runs twice. non-trivial = a fault fired; distinct = loop digests"
)
COMPONENTS = _c16.COMPONENTS
ASSUMPTIONS = ["'retry limit' L = at most L executions of a job, the first attempt included (RecoveryRequest.version starts at 1 and _update_request allows a retry while version < max_retries)",
               "for a job with several inputs whose transfers fail, only command executions are bounded (two transfer steps of one attempt can fail and be retried independently)"]
INTERLEAVE_CASES = False   # the enumerated fault classes run first and completely; seeded runs use what is left of the budget
TIERS = {"quick": {"runs": 600, "budget_s": 55}, "thorough": {"runs": 40000, "budget_s": 480}}
SIM_KW = _c16.SIM_KW

ENUM_SHAPES = [{"kind": "pipe", "k": 2}, {"kind": "sg", "n": 2, "m": 1}, {"kind": "diamond"}]


def cases(tier):
    out = []
    for si, shape in enumerate(ENUM_SHAPES):
        jobs = sorted(S.jobs_of(shape))
        for ji in range(len(jobs)):
            for phase in S.PHASES:
                for limit in ((1, 2) if tier == "quick" else (1, 2, 3)):
                    for c in range(0, limit + 3):
                        out.append({"enum": "counts", "shape": si, "job": ji, "phase": phase, "limit": limit, "count": c,
                                    "kind": ("soft", "stop")[(ji + c) % 2]})
    return out


def run(sim, params):
    t = sim.tape
    manager = "simrollback"
    if params.get("enum") == "counts":
        shape = ENUM_SHAPES[params["shape"]]
        jobs = sorted(S.jobs_of(shape))
        plan = [(params["phase"], jobs[params["job"]], params["count"], params["kind"])]
        limit = params["limit"]
    else:
        shape = S.gen_shape(t)
        jobs = sorted(S.jobs_of(shape))
        limit = 1 + t.draw(5, "limit")
        manager = ("simrollback", "simrollback", "simrollback", "dummy", "none")[t.draw(5, "manager")]
        plan = []
        for i in range(1 + t.draw(2, "nfailing")):
            plan.append((S.PHASES[t.draw(3, "phase")], jobs[t.draw(len(jobs), "job")],
                         t.draw(limit + 3, "count") if manager == "simrollback" else 1 + t.draw(2, "count"), ("soft", "stop")[t.draw(2, "kind")]))
    faults = {}
    anc_family = False
    if params.get("enum") != "counts" and manager == "simrollback" and t.draw(4, "ancestor.loss.family") == 3:
        # pipeline whose downstream jobs fail-stop and wipe the outputs of ALL their ancestors (a whole
        # location lost): upstream jobs are rolled back once per downstream failure and must obey the
        # limit too
        anc_family = True
        shape = {"kind": "pipe", "k": 3 + t.draw(3, "pipe.len")}
        limit = 2 + t.draw(3, "limit2")
        jobs = sorted(S.jobs_of(shape))
        plan = []
        for j in t.shuffle(jobs[1:], "anc.which")[: 1 + t.draw(3, "anc.nfail")]:
            plan.append(("execute", j, 1 + t.draw(2, "anc.count"), "stop"))
    g0 = S.jobs_of(shape)
    # a job with several inputs has one transfer step per input; two of them failing inside one
    # attempt make "how many times did the job fail" ambiguous, so such jobs fail in the execute phase
    plan = [(("execute" if phase == "transfer" and len(g0[job]) > 1 else phase), job, cnt, kind) for phase, job, cnt, kind in plan]
    for phase, job, cnt, kind in plan:
        if cnt:
            faults[(phase, job)] = [{"kind": kind, "lose": sorted(S.ancestors(g0, job)) if anc_family else []}] * cnt
    res = S.execute(sim, shape, faults, max_retries=limit, retry_delay=(0, 0, 2)[t.draw(3, "retry_delay")],
                    manager=manager if manager != "none" else None)
    d = S.desc(shape, faults) + f" limit={limit} manager={manager}"
    c = res.ctl
    if res.status == "deadlock" and anc_family:
        need = {}
        for j in g0:
            need[j] = 1 + sum(len(fl) for (ph, jj), fl in faults.items() if jj == j or j in S.ancestors(g0, jj))
        over = sorted(j for j, n in need.items() if n > limit)
        raise Violation("deadlock", f"neither completed nor raised (loop quiescent); jobs that would need more than max_retries={limit} executions: {over}; "
                        f"pending={[(p['task'], p['at'][-2:]) for p in res.deadlock][:6]}; {d}",
                        signature="deadlock:" + ("upstream_retries_exhausted" if over else "upstream_within_limit"))
    if res.status == "deadlock":
        raise Violation("deadlock", f"neither completed nor raised (loop quiescent); pending={[(p['task'], p['at'][-2:]) for p in res.deadlock][:6]}; {d}",
                        signature="deadlock:" + ("exhausted" if any(n >= limit for _, _, n, _ in plan) else "recoverable"))
    per_job = {}
    for (phase, job), fl in faults.items():
        per_job[job] = per_job.get(job, 0) + len(fl)
    exhausted = any(n >= limit for n in per_job.values())
    if anc_family:
        # only the bound itself is decided here: nobody runs more than `limit` times, and the run ends
        for job, n in c.execs.items():
            if n > limit:
                raise Violation("too_many_attempts", f"the command of job {job} was executed {n} times with max_retries={limit} (upstream job rolled back by downstream failures); {d}",
                                signature="too_many_attempts:execute:upstream")
        if res.status == "ok":
            _c16.check_result(sim, res, shape, faults)
        sim.probe("ancestor_loss_family")
        sim.run(res.ctx.close())
        return {"nontrivial": True, "sample": {"shape": shape, "plan": plan, "limit": limit, "status": res.status, "executions": dict(c.execs)}}
    g = S.jobs_of(shape)
    # a job with several inputs has one transfer step per input: two of them can fail in the same attempt
    multi_transfer = {job: True for (phase, job) in faults if phase == "transfer" and len(g[job]) > 1}
    if manager == "simrollback":
        # one attempt = one pass through the schedule phase; the command runs at most once per attempt
        for (phase, job), n in c.count.items():
            if phase == "schedule" and n > limit + 1:
                raise Violation("too_many_attempts", f"job {job} was attempted (scheduled) {n} times with max_retries={limit}; {d}",
                                signature="too_many_attempts:schedule")
        for job, n in c.execs.items():
            if n > limit:
                raise Violation("too_many_attempts", f"the command of job {job} was executed {n} times with max_retries={limit}; {d}",
                                signature="too_many_attempts:execute")
        if exhausted and res.status != "raised":
            raise Violation("exhaustion_not_reported", f"a job failed max_retries={limit} times or more but executor.run() returned normally; {d}")
        if not exhausted:
            _c16.check_result(sim, res, shape, faults)
    else:
        if faults and res.status != "raised":
            raise Violation("failure_not_reported", f"a job failed without a rollback failure manager but executor.run() returned normally; {d}")
        for job, n in c.execs.items():
            if n > 1:
                raise Violation("job_ran_twice", f"job {job} executed {n} times without a rollback failure manager; {d}")
        if not faults:
            _c16.check_result(sim, res, shape, faults)
    if exhausted:
        sim.probe("retries_exhausted")
    sim.run(res.ctx.close())
    return {"nontrivial": sum(sim.faults.values()) > 0,
            "sample": {"shape": shape, "plan": plan, "limit": limit, "manager": manager, "status": res.status, "phase_entries": {f"{p}:{j}": n for (p, j), n in c.count.items() if n > 1}}}
