"""C10 — the scheduler never over-allocates a location."""
from __future__ import annotations

from ..harness import sched
from ..harness.engine import canon

ID = "C10"
LEVEL = "exploration"
RULE = (
    "each run draws 1..3 fake deployments x 1..3 locations (hardware: cores/memory/2 mount points, or slots), an "
    "optional stacked wrapper deployment with a bind mount, 2..10 jobs with 1..3 declared targets (1-2 locations "
    "each) and requirements from {0, fractional, fitting, over-capacity}, and per job a lifecycle (FIREABLE -> "
    "[RUNNING] -> COMPLETED/FAILED/CANCELLED with duplicates, or -> [FAILED] -> RECOVERY -> ROLLBACK -> re-schedule "
    "up to 2 times). All schedule() calls run concurrently; jobs hold their resources until a controller releases a "
    "seed-chosen subset at each quiescent point. Invariant evaluated after every loop callback that changed "
    "job_allocations: per location and stacked level, the sum of the requirements of FIREABLE/RUNNING jobs "
    "(harness arithmetic from job_allocations only) <= capacity; slot locations: count <= slots. "
    "non-trivial = more than one job competed for a location; distinct = distinct loop digests"
)
COMPONENTS = {
    "real": ["DefaultScheduler (schedule, _process_target, _is_valid, _allocate_job, _free_resources, notify_status)",
             "DataLocalityPolicy", "DefaultDeploymentManager", "Hardware/Storage arithmetic", "bind_mount_point/get_mount_point",
             "RemoteStreamFlowPath.resolve / _size (command construction)", "SqliteDatabase"],
    "stub": ["SimConnector/SimWrapper (declared capacities; answer `find`/`test -e` commands from a table)",
             "job lifecycle driver (harness tasks calling schedule/notify_status)", "SimHardwareRequirement"],
}
ASSUMPTIONS = ["location names are unique across deployments", "all quantities are multiples of 0.25 so float arithmetic is exact"]
TIERS = {"quick": {"runs": 2500, "budget_s": 50}, "thorough": {"runs": 150000, "budget_s": 420}}
SIM_KW = {"max_steps": 600_000, "wall_cap": 60.0, "max_vtime": 1e6}
PROP = "C10"


def run(sim, params, prop=None):
    prop = prop or PROP
    sc = sched.gen_scenario(sim.tape)
    s = sched.Scenario(sim, sc)
    s.run()
    for p, v in s.findings:
        if p == prop:
            v.message += f"; scenario={canon(sc)[:1500]}"
            raise v
    sim.run(s.ctx.close())
    multi = len(sc["jobs"]) > sum(len(d["locs"]) for d in sc["deps"])
    return {"nontrivial": True if multi else None,
            "sample": {"deployments": [(d["name"], d["kind"], len(d["locs"])) for d in sc["deps"]], "wrapper": bool(sc["wrapper"]),
                       "jobs": len(sc["jobs"]), "retry_delay": sc["retry_delay"], "placements": s.placements[:6]}}
