"""C07 — recorded provenance is complete and acyclic."""
from __future__ import annotations

from ..core import Violation
from ..harness import dag, prov
from ..harness.engine import canon, make_context

from streamflow.core.exception import WorkflowExecutionException
from streamflow.core.workflow import Workflow
from streamflow.workflow.executor import StreamFlowExecutor

ID = "C07"
LEVEL = "exploration"
RULE = (
    "workloads and schedules as in C04 without faults (DAGs of transformers, scatter/gather, dot/cartesian "
    "combinators, conditionals under seeded DB/step latencies); after each run the whole token and provenance "
    "tables are read directly from the sqlite3 engine: every emitted token has a row; its recorded dependees equal "
    "exactly the persisted tokens the step consumed for it (derived from tags per step type); the relation is "
    "acyclic and every dependee id < depender id. Recovered runs are checked by the same oracle inside C16. "
    "non-trivial = non-zero delays applied; distinct = distinct loop digests"
)
COMPONENTS = {
    "real": ["BaseStep._persist_token", "Token.save", "SqliteDatabase.add_token/add_provenance", "get_entity_ids", "all step classes of C04"],
    "stub": ["aiosqlite thread -> FIFO server", "SimTransformer / SimConditional"],
}
ASSUMPTIONS = ["expected dependees for repo steps are derived from tags (scatter: the list token; gather: size token + elements; combinators: combined inputs; transformers/conditionals: same-tag inputs)"]
TIERS = {"quick": {"runs": 2000, "budget_s": 50}, "thorough": {"runs": 120000, "budget_s": 420}}
SIM_KW = {"max_steps": 400_000, "wall_cap": 60.0}


def run(sim, params):
    t = sim.tape
    plan = dag.generate(t, max_nodes=12, allow_fail=False)
    desc = "plan=" + canon(plan.describe())[:1200]
    state = {}

    async def main():
        ctx = make_context(sim)
        wf = Workflow(context=ctx, name="w", config={})
        dag.build(plan, wf)
        state.update(wf=wf, ctx=ctx)
        await wf.save(ctx.database)
        await dag.inject_inputs(plan, ctx)
        try:
            await StreamFlowExecutor(wf).run()
        except WorkflowExecutionException:
            raise Violation("run_failed", f"executor raised without fault: {sim.errors[:2]}; {desc}")

    sim.run(main())
    sim.drain()
    checked, ntok, nprov = prov.check(state["ctx"], [state["wf"]], desc)
    sim.probe("tokens_checked", checked)
    sim.probe("provenance_rows", nprov)
    sim.run(state["ctx"].close())
    return {"sample": {"ops": [n["op"] for n in plan.nodes], "tokens": ntok, "provenance_rows": nprov, "dependee_sets_checked": checked}}
