"""C29 — CWL workflows produce the same outputs as the reference runner."""
from __future__ import annotations

import json
import os
import zlib

from ..core import Violation
from ..harness import cwlgen, cwlref, cwlrun
from ..harness.engine import canon

ID = "C29"
LEVEL = "exploration"
RULE = (
    "each run generates one CWL v1.2 workflow document from a typed grammar (1..3 inputs of int, string, boolean, "
    "int?, File and arrays incl. empty and nested ones; 1..6 steps drawn from 12 tool families - ExpressionTools for "
    "arithmetic, concatenation, JSON rendering, length, range, sum, optional results, comparison, File basenames, and "
    "CommandLineTools running /bin/echo and /bin/cat with stdout capture, loadContents and File outputs; per step "
    "optionally: scatter over one or two inputs with dotproduct / flat_crossproduct / nested_crossproduct, valueFrom, "
    "defaults with and without a source, `when` (on a separate condition input or on the scattered input), several "
    "sources with linkMerge merge_nested / merge_flattened or pickValue first_non_null / all_non_null, one level of "
    "subworkflow; workflow outputs with linkMerge / pickValue incl. the_only_non_null), runs it once with cwltool "
    "(a separate helper process: the oracle) and TWICE with StreamFlow's CWL translator + executor under the "
    "simulator, each time with another seeded schedule (database, job command and step latencies, task identity "
    "order). Oracle: both runners fail, or both succeed with equal output objects after normalising file locations "
    "(basename, size, checksum and actual content of Files compared; array order and nulls compared). non-trivial = "
    "the document used scatter, when, several sources or a subworkflow; distinct = digests of the documents"
)
COMPONENTS = {
    "real": ["streamflow.cwl.main.main", "CWLTranslator", "cwl steps / transformers / combinators / processors / command / utils", "StreamFlowExecutor, DefaultScheduler, DefaultDataManager, LocalConnector",
             "cwl_utils expression evaluation with a real node process", "real /bin/echo and /bin/cat job processes"],
    "stub": ["aiosqlite thread -> FIFO server", "run_in_subprocess seam (real child at a simulator-chosen instant)", "reference: cwltool in a helper process (oracle, not under test)"],
}
ASSUMPTIONS = ["a run that exhausts its wall-clock cap (300 s; documents with hundreds of process-spawning jobs on a loaded machine) or whose reference run is too slow is counted as undecided (probes wall_timeout_undecided, reference.timeout, reference.too_slow), never as a violation and never as evidence",
               "the feature set is the grammar above (listed per production in probes grammar.*); loops (cwltool:Loop / v1.3 loop), records, Directory values, secondaryFiles, "
               "InitialWorkDirRequirement and container requirements are not generated",
               "two failing runs are considered equal whatever their messages"]
# grammar 2 = grammar 1 + tool-level defaults, valueFrom reading another input, arrays of optional ints; runs without the
# parameter (replay files recorded before it existed) use grammar 1, whose tape layout is unchanged
TIERS = {"quick": {"runs": 160, "budget_s": 75, "chunk": 2, "params": {"grammar": 2}}, "thorough": {"runs": 20000, "budget_s": 900, "chunk": 2, "params": {"grammar": 2}}}
# one run spawns up to a few hundred real processes (node, /bin/echo, /bin/cat): on a loaded machine a chunk may need minutes
STALL_S = 420
WALL_TIMEOUT = "undecided"
SIM_KW = {"max_steps": 3_000_000, "wall_cap": 300.0, "max_vtime": 1e7}


def first_diff(a, b, path="$"):
    if type(a) is not type(b) and not (isinstance(a, (int, float)) and isinstance(b, (int, float)) and not isinstance(a, bool) and not isinstance(b, bool)):
        return path, a, b
    if isinstance(a, dict):
        for k in sorted(set(a) | set(b)):
            if k not in a or k not in b:
                return f"{path}.{k}", a.get(k, "<absent>"), b.get(k, "<absent>")
            d = first_diff(a[k], b[k], f"{path}.{k}")
            if d:
                return d
        return None
    if isinstance(a, list):
        if len(a) != len(b):
            return path + ".length", len(a), len(b)
        for i, (x, y) in enumerate(zip(a, b)):
            d = first_diff(x, y, f"{path}[{i}]")
            if d:
                return d
        return None
    return None if a == b else (path, a, b)


def features_of(gen, out_name):
    """Grammar productions of the step (and its inputs) that produces workflow output `out_name`."""
    doc = gen["doc"]
    o = doc["outputs"].get(out_name, {})
    feats = set()
    srcs = o.get("outputSource")
    if isinstance(srcs, list):
        feats.add("output." + ("pickValue." + o["pickValue"] if "pickValue" in o else "linkMerge." + o.get("linkMerge", "merge_nested")))
    for s in ([srcs] if isinstance(srcs, str) else (srcs or [])):
        st = doc["steps"].get(s.split("/")[0])
        if not st:
            continue
        if "scatter" in st:
            feats.add("scatter" + (":" + st["scatterMethod"] if "scatterMethod" in st else ""))
        if "when" in st:
            feats.add("when")
        if st["run"].get("class") == "Workflow":
            feats.add("subworkflow")
            inner = st["run"]
            isrc = inner["outputs"]["o"]["outputSource"].split("/")[0]
            if isrc in inner["steps"] and not any("source" in v for v in inner["steps"][isrc]["in"].values()):
                feats.add("inner_output_step_has_no_source")
        for v in st["in"].values():
            for k in ("valueFrom", "default", "linkMerge", "pickValue"):
                if k in v:
                    feats.add(k + (":" + v[k] if k in ("linkMerge", "pickValue") else ""))
    return ",".join(sorted(feats)) or "plain"


def doc_flags(doc, scattered=False):
    """Document-level situations (computed from the document alone) that the known findings refer to."""
    flags = set()
    used = set()
    for o in doc["outputs"].values():
        srcs = o.get("outputSource")
        used |= {x.split("/")[0] for x in ([srcs] if isinstance(srcs, str) else srcs or [])}
    changed = True
    while changed:
        changed = False
        for name, st in doc["steps"].items():
            if name in used:
                for v in st["in"].values():
                    srcs = v.get("source")
                    for x in ([srcs] if isinstance(srcs, str) else srcs or []):
                        if "/" in x and x.split("/")[0] not in used:
                            used.add(x.split("/")[0])
                            changed = True
    for name, st in doc["steps"].items():
        if name not in used:
            flags.add("step_not_reaching_an_output")
        if scattered and not any("source" in v for v in st["in"].values()):
            flags.add("unsourced_step_inside_scattered_or_conditional_subworkflow")
        if st["run"].get("class") == "Workflow":
            flags |= doc_flags(st["run"], scattered or "scatter" in st or "when" in st)
    return flags


def diff_shape(a, b):
    if b == "<absent>":
        return "output_missing"
    if isinstance(a, int) and isinstance(b, int) and not isinstance(a, bool):
        return "shorter" if b < a else "longer"      # a '.length' difference
    if a is None or b is None:
        return "null_vs_value"
    if type(a) is not type(b):
        return "type"
    return "value"


def compare(sim, gen, ref, run, label):
    flags = sorted(doc_flags(gen["doc"]))
    fl = ("+" + "+".join(flags)) if flags else ""
    d = f"features={gen['used']} hazards={gen['hazards']}; wf={json.dumps(gen['doc'])[:2500]}; job={json.dumps(gen['job'])[:400]}"
    if ref[0] == "failed" and run.status == "ok":
        raise Violation("succeeds_where_reference_fails", f"{label}: cwltool fails ({ref[1][-300:]!r}) but StreamFlow returned {json.dumps(run.outputs)[:300]}; {d}",
                        signature=f"succeeds_where_reference_fails:{','.join(gen['hazards']) or 'no_hazard'}")
    if ref[0] == "ok" and run.status == "failed":
        where = run.error.split(":")[0]
        st = run.step_statuses or {}
        cancelled = sorted(n for n, v in st.items() if v == "CANCELLED")
        if where == "WorkflowExecutionException" and cancelled and not any(v == "FAILED" for v in st.values()) and \
                all("closed database" in str(e[-1]) for e in sim.errors):   # (what a cancelled step logs when its write arrives after the close)
            # no step failed and nothing was logged as an error: the executor closed (cancelling what was still running)
            # when the output ports terminated and then counted the CANCELLED steps as a failure (listed defect)
            where = "no_step_failed_only_cancelled_steps"
            d = f"cancelled={cancelled[:4]}; " + d
        raise Violation("fails_where_reference_succeeds", f"{label}: cwltool returns {json.dumps(ref[1])[:300]} but StreamFlow failed: {run.error}; errors={sim.errors[-2:]}; {d}",
                        signature=f"fails_where_reference_succeeds{fl}" if fl else f"fails_where_reference_succeeds:{where}")
    if ref[0] == "ok":
        a, b = cwlref.normalise(ref[1]), cwlref.normalise(run.outputs)
        df = first_diff(a, b)
        if df:
            out_name = df[0].split(".")[1].split("[")[0] if "." in df[0] else "?"
            raise Violation("output_differs", f"{label}: output {df[0]}: cwltool {json.dumps(df[1])[:200]} vs StreamFlow {json.dumps(df[2])[:200]}; {d}",
                            signature=f"output_differs{fl}" if fl else f"output_differs:{features_of(gen, out_name)}:{diff_shape(df[1], df[2])}")


def run(sim, params):
    t = sim.tape
    docdir = os.path.join(sim.scratch, "doc")
    os.makedirs(docdir, exist_ok=True)
    gen = cwlgen.generate(t, docdir, max_steps=params.get("max_steps", 6), grammar=params.get("grammar", 1))
    ref = cwlref.run(gen["wf"], gen["jobfile"], os.path.join(sim.scratch, "ref-out"))
    for f in gen["used"]:
        sim.probe("grammar." + f)
    sim.probe("reference." + ref[0])
    if ref[0] != "timeout" and cwlref.last_seconds > 20.0:
        # hundreds of process-spawning jobs (cross products of long arrays): the two simulated runs would not fit the
        # wall-clock budget of one run on a loaded machine
        sim.probe("reference.too_slow")
        ref = ("timeout", None)
    if ref[0] == "timeout":
        # the document is too expensive for one simulated run: not decided, counted
        return {"nontrivial": False, "sig": zlib.crc32(canon(gen["doc"]).encode()), "sample": {"features": gen["used"], "reference": "timeout"}}
    runs = []
    for k in range(2):
        r = sim.run(cwlrun.run_cwl(sim, gen["wf"], gen["jobfile"], os.path.join(sim.scratch, f"sf-out{k}"), f"run{k}"))
        runs.append(r)
        compare(sim, gen, ref, r, f"schedule #{k}")
    if runs[0].status == "ok":
        a, b = cwlref.normalise(runs[0].outputs), cwlref.normalise(runs[1].outputs)
        if a != b:
            raise Violation("schedule_dependent_output", f"two schedules of the same document disagree: {first_diff(a, b)}", signature="schedule_dependent_output")
    nontrivial = any(f.startswith(("scatter", "when", "step_input.linkMerge", "step_input.pickValue", "subworkflow", "output.")) for f in gen["used"])
    return {"nontrivial": nontrivial, "sig": zlib.crc32(canon(gen["doc"]).encode()),
            "sample": {"features": gen["used"], "hazards": gen["hazards"], "reference": ref[0], "streamflow": runs[0].status, "steps": len(gen["doc"]["steps"])}}
