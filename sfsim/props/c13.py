"""C13 — jobs go to the first admissible declared target."""
from __future__ import annotations

import asyncio

from ..core import Violation
from ..harness import sched
from ..harness.engine import canon, make_context

from streamflow.core.config import BindingConfig
from streamflow.core.deployment import DeploymentConfig, FilterConfig
from streamflow.core.exception import WorkflowExecutionException
from streamflow.core.workflow import Job, Status, Token

ID = "C13"
LEVEL = "exploration"
RULE = (
    "each run draws 2..4 fake deployments (hardware capacities: some too small for the job, some ample), a binding "
    "with 1..4 declared targets (deployment, optional service; Target hashes are seed-assigned because the matching "
    "filter collects survivors in a set), a chain of 0..2 matching filters with 1..3 rules of 1..2 port predicates, "
    "1..5 jobs with string/int inputs scheduled concurrently and never released (admissibility only shrinks, so the "
    "first admissible target is well defined at grant time), and per-deployment latencies of "
    "get_available_locations. Oracle: the filter chain's survivors computed from the statement's rule semantics; "
    "schedule() raises iff a filter leaves no survivor; otherwise the job is placed on the first survivor in "
    "declared order whose locations have enough free capacity at grant time (harness arithmetic). "
    "non-trivial = at least two survivors were admissible; distinct = distinct loop digests"
)
COMPONENTS = {
    "real": ["MatchingBindingFilter / MatchingRule", "DefaultScheduler.schedule/_process_target/_is_valid/_allocate_job",
             "DefaultDeploymentManager", "binding_filter_classes registry"],
    "stub": ["SimConnector (declared capacities)", "SimTarget (Target with seed-assigned hash)", "SimHardwareRequirement"],
}
ASSUMPTIONS = ["no resources are released during a run, so 'admissible at evaluation' and 'admissible at grant' coincide"]
TIERS = {"quick": {"runs": 3000, "budget_s": 50}, "thorough": {"runs": 200000, "budget_s": 420}}
SIM_KW = {"max_steps": 300_000, "wall_cap": 60.0}

VALUES = ("a", "b", "1")


def run(sim, params):
    t = sim.tape
    ndep = 2 + t.draw(3, "ndep")
    deps = []
    for d in range(ndep):
        small = t.draw(3, f"d{d}.small") == 2
        deps.append({"name": f"d{d}", "kind": "hw", "workdir": "/data",
                     "locs": [{"name": f"d{d}l0", "kind": "hw", "cores": 1.0 if small else float(2 + t.draw(3, "cores")),
                               "memory": 1024.0, "storage": {"/": 100.0, "/data": 1000.0}}]})
    services = (None, "svcA", "svcB")
    ntargets = 1 + t.draw(4, "ntargets")
    tspecs = []
    for i in range(ntargets):
        tspecs.append({"dep": f"d{t.draw(ndep, 'tdep')}", "locations": 1, "service": services[t.draw(3, "tsvc")]})
    # declared targets are distinct (deployment, service) pairs
    seen, uniq = set(), []
    for s in tspecs:
        if (s["dep"], s["service"]) not in seen:
            seen.add((s["dep"], s["service"]))
            uniq.append(s)
    tspecs = uniq
    nfilters = t.draw(3, "nfilters")
    fcfgs = []
    for f in range(nfilters):
        rules = []
        for r in range(1 + t.draw(3, f"f{f}.nrules")):
            preds = []
            for pname in ("x", "y")[: 1 + t.draw(2, "npred")]:
                preds.append({"port": pname, "match": VALUES[t.draw(3, "match")]})
            tgt = {"deployment": f"d{t.draw(ndep, 'rdep')}"}
            sv = services[t.draw(3, "rsvc")]
            if sv:
                tgt["service"] = sv
            rules.append({"target": tgt if sv or t.draw(2, "as.map") else tgt["deployment"], "job": preds})
        fcfgs.append({"name": f"filter{f}", "rules": rules})
    njobs = 1 + t.draw(5, "njobs")
    jobs = []
    for j in range(njobs):
        xv = VALUES[t.draw(3, "x")]
        yv = (VALUES[t.draw(3, "y")], 1)[t.draw(4, "y.int") == 3]
        jobs.append({"name": f"/s/0.{j}", "x": xv, "y": yv, "req": (float(1 + t.draw(2, "req.cores")), 0.0, 0.0, 0.0),
                     "targets": tspecs, "usage": (0, 0), "path": []})
    sc = {"deps": deps, "wrapper": None, "jobs": jobs, "retry_delay": 0}
    info = {"targets": tspecs, "filters": fcfgs, "jobs": [(j["name"], j["x"], j["y"], j["req"][0]) for j in jobs],
            "capacity": {d["name"]: d["locs"][0]["cores"] for d in deps}}

    def survivors(job):
        cur = list(range(len(tspecs)))
        for f in fcfgs:
            keep = []
            for i in cur:
                tg = tspecs[i]
                ok = False
                for r in f["rules"]:
                    rt = r["target"]
                    rdep = rt if isinstance(rt, str) else rt["deployment"]
                    rsv = None if isinstance(rt, str) else rt.get("service")
                    if rdep != tg["dep"] or (rsv is not None and rsv != tg["service"]):
                        continue
                    if all(p["match"] == str(job[p["port"]]) for p in r["job"]):
                        ok = True
                if ok:
                    keep.append(i)
            cur = keep
            if not cur:
                return None
        return cur

    s = sched.Scenario(sim, sc)
    results = {}
    nontrivial = [False]

    async def main():
        await s.setup()
        filters = [FilterConfig(name=f["name"], type="matching", config={"filters": f["rules"]}) for f in fcfgs]
        targets = []
        # identity order of the Target objects: a seed-chosen permutation of the low hash bits
        # (a set of <= 4 elements iterates by hash modulo 8), as heap addresses would give
        slots = t.shuffle(list(range(8)), "target.hash.order")
        for i, tg in enumerate(tspecs):
            tt = sched.SimTarget(deployment=s.cfgs[tg["dep"]], locations=1, service=tg["service"], workdir="/data")
            tt._sim_hash = 64 + slots[i]
            targets.append(tt)
        binding = BindingConfig(targets=targets, filters=filters)
        sched_ = s.ctx.scheduler

        async def one(j):
            await sim.io("submit", j["name"])
            job = Job(name=j["name"], workflow_id=0, inputs={"x": Token(j["x"]), "y": Token(j["y"])},
                      input_directory=None, output_directory=None, tmp_directory=None)
            surv = survivors(j)
            use_before = None
            # admissibility is evaluated against what is reserved when the grant happens; since nothing
            # is released, record the reservation state seen just before this job got its allocation
            try:
                await asyncio.wait_for(sched_.schedule(job, binding, s.req), timeout=1000)
            except WorkflowExecutionException as e:
                results[j["name"]] = ("raised", surv)
                return
            except (TimeoutError, asyncio.TimeoutError):
                results[j["name"]] = ("waiting", surv)
                return
            alloc = sched_.get_allocation(j["name"])
            results[j["name"]] = ("placed", surv, targets.index(alloc.target))

        # grant-time bookkeeping through the step hook
        order = []
        known = set()

        def on_step():
            for n, a in sched_.job_allocations.items():
                if n not in known:
                    known.add(n)
                    use = s.reserved()
                    # remove this job's own contribution
                    j = next(x for x in jobs if x["name"] == n)
                    for loc in a.locations:
                        for ln, c, m, st in s.level_reqs(n, loc.name):
                            use[ln][0] -= c
                            use[ln][3] -= 1
                    surv = survivors(j) or []
                    adm = [i for i in surv if s.target_hosts(j, tspecs[i], use)]
                    order.append((n, adm, targets.index(a.target)))

        sim.loop.on_step = on_step
        await asyncio.gather(*(asyncio.create_task(one(j)) for j in jobs))
        sim.loop.on_step = None
        return order

    order = sim.run(main())
    for j in jobs:
        st = results[j["name"]]
        surv = st[1]
        if surv is None:
            if st[0] != "raised":
                raise Violation("filter_should_reject", f"job {j['name']}: no target survives the filters but schedule() -> {st}; case={canon(info)[:1200]}")
            continue
        if st[0] == "raised":
            raise Violation("filter_rejected_survivor", f"job {j['name']}: survivors {surv} but schedule() raised; errors={sim.errors[:2]}; case={canon(info)[:1200]}")
        if st[0] == "placed" and st[2] not in surv:
            raise Violation("placed_on_filtered_target", f"job {j['name']} placed on target #{st[2]} which the filters discard (survivors {surv}); case={canon(info)[:1200]}")
    for n, adm, got in order:
        if len(adm) >= 2:
            nontrivial[0] = True
            sim.probe("several_admissible_survivors")
        if adm and got != adm[0]:
            raise Violation("not_first_admissible",
                            f"job {n} placed on declared target #{got} but target #{adm[0]} comes first among the admissible survivors {adm}; case={canon(info)[:1200]}",
                            signature="not_first_admissible" + (":with_filter" if fcfgs else ":no_filter"))
    return {"nontrivial": nontrivial[0], "sample": info}
