"""C18 — recovery re-runs only failed jobs and producers of lost data."""
from __future__ import annotations

from ..core import Violation
from ..harness import recshapes as S
from . import c16 as _c16

ID = "C18"
LEVEL = "exploration"
RULE = (
    "shapes and schedules as C16; fault plans of 1..3 (job, phase) entries: soft failures, fail-stop of the job's "
    "own data, and fail-stop that also destroys the output directories of a seed-chosen set of ancestor jobs (a "
    "location losing part of its disk). Oracle over the event log (command starts per job, FAIL and DATA_LOST "
    "events): a job whose outputs were never destroyed runs exactly 1 + its own execute-phase failures times "
    "(never re-executed while its outputs stayed available); a job executed more often had its outputs destroyed by "
    "a recorded loss event and is a provenance ancestor (static DAG) of a failed job; after soft-only plans only the "
    "failing jobs run again. Replica family (enumerated_cases): pipelines of 2..4 jobs whose later jobs run on a second "
    "deployment with read-only staging - an upstream output then has a second, related data location on the other "
    "deployment (a symbolic link between two local deployments; two PRIMARY copies would need a remote site, which "
    "this harness does not have) - with 1..2 fail-stops that destroy the failing job's directories (the staged copy) "
    "only, and a seeded latency for every existence probe per site (seam on LocalStreamFlowPath.exists): the producer "
    "must not run again. Outputs family (enumerated_cases): pipelines whose jobs emit a directory and/or whose outputs are "
    "processed by a UnionCommandOutputProcessor, with 1..2 soft or fail-stop failures of the jobs' own data. non-trivial = a "
    "fault fired; distinct = loop digests"
)
COMPONENTS = _c16.COMPONENTS
ASSUMPTIONS = ["ancestry is taken from the static job DAG of the generated shape", "whether a run finally completes is decided by C16/C19, not here"]
TIERS = {"quick": {"runs": 1200, "budget_s": 55}, "thorough": {"runs": 60000, "budget_s": 480}}
SIM_KW = _c16.SIM_KW


def check_executions(sim, res, shape, faults, prop="C18", per_loss_bound=False):
    c = res.ctl
    g = S.jobs_of(shape)
    d = S.desc(shape, faults)
    own = {}
    for (_, job, phase, kind) in [(e[0], e[1], e[2], e[3]) for e in c.fail_events]:
        if phase == "execute":
            own[job] = own.get(job, 0) + 1
    losses = {}
    for _, failing, lost in c.lost_jobs:
        for j in lost:
            losses[j] = losses.get(j, 0) + 1
    failed_jobs = {e[1] for e in c.fail_events}
    for job, n in c.execs.items():
        bound = 1 + own.get(job, 0) + losses.get(job, 0)
        if n > bound and not per_loss_bound and losses.get(job):
            # C18 only asks that a re-executed job lost its data and is an ancestor of a failed job;
            # "at most once per loss" is C19's obligation
            if not any(job in S.ancestors(g, f) for f in failed_jobs | set(c.execs) if f in g):
                raise Violation("reexecuted_non_ancestor", f"job {job} re-executed but is no ancestor of any failed job; {d}")
            continue
        if n > bound:
            anc_of_failed = any(job in S.ancestors(g, f) for f in failed_jobs if f in g)
            raise Violation(
                "unjustified_reexecution",
                f"job {job} executed {n} times: own execute failures {own.get(job, 0)}, loss events of its outputs {losses.get(job, 0)} "
                f"(ancestor of a failed job: {anc_of_failed}); fail events={c.fail_events}; losses={c.lost_jobs}; {d}",
                signature="unjustified_reexecution:" + ("never_lost" if not losses.get(job) else "more_than_once_per_loss")
                + (":own_schedule_or_transfer_failure_while_its_input_was_lost_by_another_job"
                   if not losses.get(job) and any(e[1] == job and e[2] != "execute" for e in c.fail_events)
                   and any(losses.get(a) for a in S.ancestors(g, job)) and any(f != job for _, f, _ in c.lost_jobs) else ""))
    return own, losses


def cases(tier):
    # replica family: a pipeline whose later steps run on a second deployment with read-only staging, so that an upstream
    # output has a second, related data location (the staged copy); a fail-stop destroys the staged copy only
    n = 200 if tier == "quick" else 8000
    # outputs family: pipelines whose jobs emit a DIRECTORY, or whose outputs go through a UnionCommandOutputProcessor (what the
    # CWL translator installs for union output types): a failing job downstream must not re-run producers whose output stayed
    return [{"family": "replica"} for _ in range(n)] + [{"family": "outputs"} for _ in range(n)]


def run(sim, params):
    t = sim.tape
    restore = None
    if params.get("family") == "replica":
        shape = {"kind": "pipe", "k": 2 + t.draw(3, "replica.len"), "replica": True}
        jobs = sorted(S.jobs_of(shape))
        faults = {}
        for _ in range(1 + t.draw(2, "replica.nfail")):
            j = jobs[1 + t.draw(len(jobs) - 1, "replica.job")]
            faults[(("execute", "transfer")[t.draw(3, "replica.phase") == 2], j)] = [{"kind": "stop", "lose": []}] * (1 + (t.draw(4, "replica.count") == 0))
        # seam: an existence probe on a location takes (simulated) time; which site answers first is the seed's choice
        import streamflow.data.remotepath as rp

        orig_exists = rp.LocalStreamFlowPath.exists

        async def exists(self):
            await sim.io("fs.exists", "site-b" if "wd-site-b" in str(self) else "site-a")
            return await orig_exists(self)

        rp.LocalStreamFlowPath.exists = exists

        def restore():
            rp.LocalStreamFlowPath.exists = orig_exists
        sim.probe("replica_family")
    elif params.get("family") == "outputs":
        shape = {"kind": "pipe", "k": 2 + t.draw(3, "outputs.len")}
        which = t.draw(3, "outputs.which")
        if which in (0, 2):
            shape["out"] = "dir"
        if which in (1, 2):
            shape["union"] = True
        faults = S.gen_faults(t, shape, max_entries=2, allow_ancestors=False, max_count=2)
        sim.probe("outputs_family")
    else:
        shape = S.gen_shape(t)
        faults = S.gen_faults(t, shape, max_entries=3, allow_ancestors=True, max_count=2)
    try:
        res = S.execute(sim, shape, faults, max_retries=40, retry_delay=(0, 0, 2)[t.draw(3, "retry_delay")])
    finally:
        if restore is not None:
            restore()
    try:
        own, losses = check_executions(sim, res, shape, faults)
    except Violation as v:
        # which kinds of exception entered recover()? Injected faults and missing inputs are
        # WorkflowExecutionExceptions; any other type means a job tripped over state that an overlapping
        # recovery changed under it (C19's subject) before the unjustified re-execution happened
        # (the first such type is the trigger, later ones are consequences; probes keep insertion order)
        unexpected = [k.split(":", 1)[1] for k in sim.probes if k.startswith("recover_unexpected:")]
        v.signature += (":after_unexpected_exception_in_recover:" + unexpected[0]) if unexpected else ":workflow_execution_exceptions_only"
        raise
    if res.status == "ok":
        for job in S.jobs_of(shape):
            if not losses.get(job) and res.ctl.execs.get(job, 0) > 1 + own.get(job, 0):
                raise Violation("execution_count", f"job {job} executed {res.ctl.execs.get(job, 0)} times, expected {1 + own.get(job, 0)}; {S.desc(shape, faults)}")
        sim.probe("run_completed")
    else:
        sim.probe(f"run_{res.status}")
    if res.status != "deadlock":
        sim.run(res.ctx.close())
    return {"nontrivial": sum(sim.faults.values()) > 0,
            "sample": {"shape": shape, "faults": {f"{p}:{j}": [(f["kind"], f["lose"]) for f in fl] for (p, j), fl in faults.items()},
                       "executions": dict(res.ctl.execs), "status": res.status}}
