"""C06 — loops emit the last/all iteration values in iteration order, for any count."""
from __future__ import annotations

import json

from .. import core
from ..core import Violation
from ..harness import engine as H
from ..harness.engine import FUNCS, SimTransformer, canon, inject, make_context, plain, to_token

from streamflow.core.exception import WorkflowExecutionException
from streamflow.core.workflow import Workflow
from streamflow.cwl.step import CWLLoopConditionalStep, CWLLoopOutputAllStep, CWLLoopOutputLastStep
from streamflow.workflow.combinator import LoopCombinator, LoopTerminationCombinator
from streamflow.workflow.executor import StreamFlowExecutor
from streamflow.workflow.step import CombinatorStep, GatherStep, LoopCombinatorStep, ScatterStep
from streamflow.workflow.token import IterationTerminationToken, ListToken, TerminationToken

ID = "C06"
LEVEL = "exploration"
RULE = (
    "each run builds a loop wired exactly as cwl/translator.py wires cwltool:Loop (input forwarders -> "
    "LoopCombinatorStep -> loop conditional with skip ports -> body transformers -> output forwarder -> "
    "CWLLoopOutputLast/AllStep -> LoopTerminationCombinator -> back-propagation forwarders; loop input ports "
    "have three writers) with 1..3 loop variables, 1..2 body transformers per variable, 1..4 loop instances "
    "(a scatter around the loop, gathered afterwards) with per-instance iteration counts from {0,1,2,3,10,11,15}, "
    "output method last/all, under seeded per-iteration latencies of every body/conditional/DB operation. Oracle: "
    "exactly one output per instance with the instance tag and the value from the sequential reference (last "
    "iteration value / all values in iteration order; null / [] for 0 iterations), termination after all of them, "
    "run terminates (no quiescence). Direct family (enumerated_cases): CWLLoopOutputLast/AllStep alone, fed by 1..2 "
    "producers with the value tokens <p>.<i> and the iteration-termination token <p>.<count> of 1..4 instances (tags "
    "incl. 0.9/0.10/0.11) in a SHUFFLED arrival order - values overtaking each other, the count arriving before, between "
    "or after the values - same oracle. non-trivial = non-zero delays applied or a shuffled arrival; distinct = loop digests"
)
COMPONENTS = {
    "real": ["LoopCombinatorStep", "LoopCombinator", "LoopTerminationCombinator", "CombinatorStep", "LoopOutputStep.run",
             "CWLLoopOutputLastStep", "CWLLoopOutputAllStep", "CWLLoopConditionalStep._on_true/_on_false", "ConditionalStep.run",
             "Transformer.run (iteration-termination propagation)", "ScatterStep", "GatherStep", "StreamFlowExecutor", "SqliteDatabase"],
    "stub": ["loop condition predicate and body functions are harness pure functions with seeded latency", "aiosqlite thread -> FIFO server"],
}
ASSUMPTIONS = ["loop instances carry tags of one depth (all from the same enclosing scatter, or the single root instance)"]
TIERS = {"quick": {"runs": 1200, "budget_s": 50}, "thorough": {"runs": 60000, "budget_s": 420}}
SIM_KW = {"max_steps": 1_500_000, "wall_cap": 90.0}

COUNTS = (0, 1, 2, 3, 10, 11, 15)


def _loopstep(name, vals):
    s = dict(vals[0])
    s["h"] = (s["h"] * 31 + s["i"] + 7) % 1009
    s["i"] += 1
    return s


FUNCS["loopstep"] = _loopstep
FUNCS["tick"] = lambda name, vals: (vals[0] * 3 + 1) % 101
FUNCS["mk_y"] = lambda name, vals: vals[0]["h"] + 5
FUNCS["mk_z"] = lambda name, vals: vals[0]["n"]


class SimLoopConditional(CWLLoopConditionalStep):
    """Real CWLLoopConditionalStep (_on_true/_on_false/skip ports); only the predicate is a
    harness function: continue while x.i < x.n."""

    async def _eval(self, inputs):
        sim = core.CURRENT
        x = plain(inputs["x"])
        await sim.io("when", f"{self.name}:{inputs['x'].tag}")
        return x["i"] < x["n"]


def cases(tier):
    # direct family: the loop output step alone, fed with the iteration tokens of 1..4 instances in a shuffled arrival order
    return [{"family": "direct"} for _ in range(500 if tier == "quick" else 20000)]


def run_direct(sim, params):
    """CWLLoopOutputLast/AllStep driven directly: values `<p>.<i>` and the iteration-termination token `<p>.<count>` of
    every instance arrive in a seed-chosen order (values overtaking each other, count before / between / after values)."""
    import asyncio

    from streamflow.core.workflow import Token

    t = sim.tape
    method = ("last", "all")[t.draw(2, "method")]
    base = ("0", "0.4", "0.10")[t.draw(3, "base")]
    ninst = 1 + t.draw(4, "ninst")
    prefixes = [base] if ninst == 1 else [f"{base}.{i}" for i in ((0, 1, 2, 3) if t.draw(2, "inst.tags") else (1, 9, 10, 11))[:ninst]]
    counts = {p: COUNTS[t.draw(len(COUNTS), "count")] for p in prefixes}
    if sum(counts.values()) > 40:
        counts = {p: min(c, 11) for p, c in counts.items()}
    items = []
    for p, n in counts.items():
        items += [("v", p, i) for i in range(n)] + [("n", p, n)]
    order = t.shuffle(items, "arrival") if t.draw(4, "shuffled") else items
    nprod = 1 + t.draw(2, "producers")
    info = {"mode": "direct", "method": method, "counts": counts, "arrival": [f"{k}{p}.{i}" for k, p, i in order][:60], "producers": nprod}
    state = {}

    async def main():
        ctx = make_context(sim)
        wf = Workflow(context=ctx, name="w", config={})
        step = wf.create_step(CWLLoopOutputLastStep if method == "last" else CWLLoopOutputAllStep, name="/loop-output")
        pin, pout = wf.create_port(), wf.create_port()
        step.add_input_port("x", pin)
        step.add_output_port("x", pout)
        await wf.save(ctx.database)
        state.update(ctx=ctx, pout=pout, step=step)
        run_task = asyncio.create_task(step.run(), name="/loop-output")

        async def producer(k):
            for j, (kind, p, i) in enumerate(order):
                if j % nprod != k:
                    continue
                await sim.io("produce", f"{p}")
                tok = Token(value=f"{p}#{i}", tag=f"{p}.{i}") if kind == "v" else IterationTerminationToken(tag=f"{p}.{i}")
                await tok.save(ctx.database, port_id=pin.persistent_id)
                pin.put(tok)

        await asyncio.gather(*(asyncio.create_task(producer(k), name=f"producer{k}") for k in range(nprod)))
        pin.put(TerminationToken())
        await run_task

    sim.run(main())     # quiescence before the step terminates = the step waits for an output that will never come
    got = []
    for tok in state["pout"].token_list:
        if isinstance(tok, TerminationToken):
            got.append(("TERM", tok.value.name))
        elif isinstance(tok, IterationTerminationToken):
            got.append(("ITERM", tok.tag))
        else:
            got.append((tok.tag, plain(tok)))
    d = f"case={canon(info)[:900]}"
    if not got or got[-1][0] != "TERM":
        raise Violation("no_final_termination", f"loop output port does not end with a termination token: {got[-3:]}; {d}", signature="direct:no_final_termination")
    by_tag = {}
    for g in got[:-1]:
        if g[0] in ("TERM", "ITERM"):
            raise Violation("unexpected_token", f"unexpected {g} on the loop output port; {d}", signature="direct:unexpected_token")
        by_tag.setdefault(g[0], []).append(g[1])
    for p, n in counts.items():
        vals = by_tag.get(p, [])
        if len(vals) != 1:
            raise Violation("wrong_output_count", f"instance {p} ({n} iterations) emitted {len(vals)} outputs: {vals[:3]}; {d}", signature=f"direct:wrong_output_count:{method}")
        want = ([f"{p}#{i}" for i in range(n)] if method == "all" else (f"{p}#{n - 1}" if n else None))
        if vals[0] != want:
            raise Violation("wrong_output", f"instance {p} ({n} iterations, method {method}): got {str(vals[0])[:200]} expected {str(want)[:200]}; {d}",
                            signature=f"direct:wrong_output:{method}")
    if set(by_tag) - set(counts):
        raise Violation("unexpected_instance", f"outputs for unknown instances {sorted(set(by_tag) - set(counts))}; {d}", signature="direct:unexpected_instance")
    if not state["step"].terminated:
        raise Violation("step_not_terminated", f"loop output step not terminated; {d}", signature="direct:step_not_terminated")
    sim.run(state["ctx"].close())
    sim.probe("direct." + method)
    shuffled = [f"{k}{p}.{i}" for k, p, i in order] != [f"{k}{p}.{i}" for k, p, i in items]
    return {"nontrivial": shuffled or nprod > 1, "sample": info}


def run(sim, params):
    if params.get("family") == "direct":
        return run_direct(sim, params)
    t = sim.tape
    nvars = 1 + t.draw(3, "nvars")
    varnames = ["x", "y", "z"][:nvars]
    method = ("last", "all")[t.draw(2, "method")]
    scattered = t.draw(3, "scattered") > 0
    ninst = 1 + t.draw(4, "ninst") if scattered else 1
    counts = [COUNTS[t.draw(len(COUNTS), f"count{i}")] for i in range(ninst)]
    if sum(counts) > 40:
        counts = [min(c, 11) for c in counts]
    body_len = {v: 1 + t.draw(2, f"body.{v}") for v in varnames}
    out_vars = [v for v in varnames if v == "x" or t.draw(2, f"out.{v}")]
    base = ("0", "0.4")[t.draw(2, "base")] if scattered else "0"
    info = {"vars": varnames, "method": method, "scattered": scattered, "counts": counts, "body_len": body_len,
            "out_vars": out_vars, "base": base}
    states = [{"n": c, "i": 0, "h": idx} for idx, c in enumerate(counts)]

    # ---- sequential reference -----------------------------------------------------------------
    def ref(inst):
        vals = {"x": states[inst]}
        if "y" in varnames:
            vals["y"] = FUNCS["mk_y"]("", [states[inst]])
        if "z" in varnames:
            vals["z"] = FUNCS["mk_z"]("", [states[inst]])
        hist = {v: [] for v in varnames}
        while vals["x"]["i"] < vals["x"]["n"]:
            new = {}
            for v in varnames:
                cur = vals[v]
                if v == "x":
                    cur = _loopstep("", [cur])
                else:
                    for _ in range(body_len[v]):
                        cur = FUNCS["tick"]("", [cur])
                new[v] = cur
                hist[v].append(cur)
            vals = new
        return hist

    # x's body applies loopstep exactly once (extra body steps are identity forwarders)
    expected = {}
    for inst in range(ninst):
        hist = ref(inst)
        for v in out_vars:
            if method == "last":
                expected[(v, inst)] = hist[v][-1] if hist[v] else None
            else:
                expected[(v, inst)] = hist[v]

    state = {}

    async def main():
        ctx = make_context(sim)
        wf = Workflow(context=ctx, name="w", config={})
        p_in = wf.create_port()
        # ---- instances
        if scattered:
            sc = wf.create_step(ScatterStep, name="/outer-scatter")
            sc.add_input_port("x", p_in)
            sc.add_output_port("x", wf.create_port())
            src = {"x": sc.get_output_port("x")}
            size_port = sc.get_size_port()
        else:
            src = {"x": p_in}
        for v, fn in (("y", "mk_y"), ("z", "mk_z")):
            if v in varnames:
                mk = wf.create_step(SimTransformer, name=f"/mk-{v}", fn=fn)
                mk.add_input_port("x", src["x"])
                mk.add_output_port(v, wf.create_port())
                src[v] = mk.get_output_port(v)
        # ---- loop input side
        comb = LoopCombinator(workflow=wf, name="/loop-combinator")
        F = {}
        for v in varnames:
            fw = wf.create_step(SimTransformer, name=f"/loop/{v}-input-forward", fn="id")
            fw.add_input_port(v, src[v])
            F[v] = wf.create_port()
            fw.add_output_port(v, F[v])
            comb.add_item(v)
        cstep = wf.create_step(LoopCombinatorStep, name="/loop-combinator", combinator=comb)
        for v in varnames:
            cstep.add_input_port(v, F[v])
            cstep.add_output_port(v, wf.create_port())
        when = wf.create_step(SimLoopConditional, name="/loop-when", expression="x.i < x.n")
        W = {}
        for v in varnames:
            when.add_input_port(v, cstep.get_output_port(v))
            W[v] = wf.create_port()
            when.add_output_port(v, W[v])
        # ---- body
        B = {}
        for v in varnames:
            cur = W[v]
            for k in range(body_len[v]):
                fn = ("loopstep" if k == 0 else "id") if v == "x" else "tick"
                b = wf.create_step(SimTransformer, name=f"/body/{v}{k}", fn=fn)
                b.add_input_port(v, cur)
                b.add_output_port(v, wf.create_port())
                cur = b.get_output_port(v)
            B[v] = cur
        # ---- loop output side
        tcomb = LoopTerminationCombinator(workflow=wf, name="/loop-termination-combinator")
        tstep = wf.create_step(CombinatorStep, name="/loop-terminator", combinator=tcomb)
        for v in varnames:
            tstep.add_output_port(v, F[v])
            tcomb.add_output_item(v)
        internal = dict(B)
        E = {}
        for v in out_vars:
            ofw = wf.create_step(SimTransformer, name=f"/loop/{v}-output-forward", fn="id")
            ofw.add_input_port(v, B[v])
            ofw.add_output_port(v, wf.create_port())
            internal[v] = ofw.get_output_port(v)
            lo = wf.create_step(CWLLoopOutputLastStep if method == "last" else CWLLoopOutputAllStep, name=f"/loop/{v}-loop-output")
            lo.add_input_port(v, internal[v])
            when.add_skip_port(v, internal[v])
            lo.add_output_port(v, wf.create_port())
            E[v] = lo.get_output_port(v)
            tstep.add_input_port(v, E[v])
            tcomb.add_item(v)
        for v in varnames:
            bp = wf.create_step(SimTransformer, name=f"/loop/{v}-back-propagation", fn="id")
            bp.add_input_port(v, internal[v])
            bp.add_output_port(v, F[v])
        G = {}
        for v in out_vars:
            if scattered:
                g = wf.create_step(GatherStep, name=f"/gather-{v}", size_port=size_port)
                g.add_input_port(v, E[v])
                g.add_output_port(v, wf.create_port())
                G[v] = g.get_output_port(v)
                wf.output_ports[v] = G[v].name
            else:
                wf.output_ports[v] = E[v].name
        state.update(ctx=ctx, wf=wf, E=E, G=G)
        await wf.save(ctx.database)
        tok = to_token(states if scattered else states[0], base)
        await inject(p_in, [tok], ctx)
        try:
            await StreamFlowExecutor(wf).run()
        except WorkflowExecutionException:
            raise Violation("run_failed", f"executor raised without fault: {sim.errors[:2]}; case={canon(info)}",
                            signature=f"run_failed:{sim.errors[0][:2] if sim.errors else None}")

    sim.run(main())
    sim.drain()
    E, G = state["E"], state["G"]
    for v in out_vars:
        tl = E[v].token_list
        if not tl or not isinstance(tl[-1], TerminationToken):
            raise Violation("no_termination", f"loop output {v} has no final termination token: {H.port_contents(E[v])[-4:]}; case={canon(info)}")
        data = tl[:-1]
        if any(isinstance(x, TerminationToken) for x in data):
            raise Violation("early_termination", f"loop output step for {v} terminated before every instance emitted: {H.port_contents(E[v])}; case={canon(info)}")
        got = {}
        for x in data:
            if isinstance(x, IterationTerminationToken):
                raise Violation("leaked_iteration_termination", f"iteration termination token on the loop output port {v}")
            if x.tag in got:
                raise Violation("duplicate_output", f"two outputs for instance tag {x.tag} on {v}: {H.port_contents(E[v])}; case={canon(info)}")
            got[x.tag] = plain(x)
        want = {}
        for inst in range(ninst):
            tag = f"{base}.{inst}" if scattered else base
            want[tag] = expected[(v, inst)]
        if set(got) != set(want):
            raise Violation("missing_or_extra_instance", f"{v}: outputs for tags {sorted(got)} expected {sorted(want)}; case={canon(info)}")
        for tag in want:
            if canon(got[tag]) != canon(want[tag]):
                raise Violation("wrong_loop_output", f"{v} instance {tag} ({method}): got {canon(got[tag])[:400]} expected {canon(want[tag])[:400]}; case={canon(info)}")
        if scattered:
            gl = [x for x in G[v].token_list if not isinstance(x, TerminationToken)]
            wantl = [expected[(v, inst)] for inst in range(ninst)]
            if len(gl) != 1 or canon(plain(gl[0])) != canon(wantl) or gl[0].tag != base:
                raise Violation("wrong_gathered_loop_output", f"{v}: gathered {H.port_contents(G[v])[:3]} expected tag {base} value {canon(wantl)[:300]}; case={canon(info)}")
    from ..harness import dag

    dag.check_all_terminated(state["wf"], "after_drain")
    sim.run(state["ctx"].close())
    if max(counts) >= 10:
        sim.probe("iterations>=10")
    if 0 in counts:
        sim.probe("zero_iterations")
    if len(set(counts)) > 1:
        sim.probe("instances_with_different_counts")
    return {"sample": info}
