"""C11 — released resources return exactly what was reserved."""
from __future__ import annotations

from . import c10 as _c10

ID = "C11"
LEVEL = "exploration"
RULE = (
    "same generated histories as C10 (concurrent schedule() calls, lifecycles with duplicated notifications, "
    "recovery/rollback/re-schedule, cross-job release orders chosen by the seed at every quiescent point), each driven "
    "until every granted job is terminal. Oracle at the end: every entry of the scheduler's per-location reservation "
    "has cores == 0 and memory == 0, and per mount point exactly the sum of what the fake connector reported as "
    "measured usage of the released jobs' own directories (on every stacked level, through bind mounts). "
    "non-trivial = more jobs than locations; distinct = distinct loop digests"
)
COMPONENTS = _c10.COMPONENTS
ASSUMPTIONS = _c10.ASSUMPTIONS + [
    "only legal per-job transitions are generated (the engine never notifies RUNNING after a terminal status)",
    "a job's measured directory usage never exceeds what it declared",
]
TIERS = _c10.TIERS
SIM_KW = _c10.SIM_KW


def run(sim, params):
    return _c10.run(sim, params, prop="C11")
