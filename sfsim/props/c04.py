"""C04 — every well-formed workflow terminates, and failures terminate every step."""
from __future__ import annotations

from ..core import Violation
from ..harness import dag
from ..harness import recshapes as S
from ..harness.engine import canon, make_context

from streamflow.core.exception import WorkflowExecutionException
from streamflow.core.workflow import Status, Workflow
from streamflow.workflow.executor import StreamFlowExecutor

ID = "C04"
LEVEL = "exploration"
RULE = (
    "each run draws a well-formed DAG of 1..12 nodes (transformers with 1-2 inputs, scatter, gather, dot and "
    "cartesian combinator steps, conditional steps; every unconsumed stream is a workflow output so every step "
    "reaches an output), 1..3 list-valued inputs, optionally one transformer invocation that raises, and a delay "
    "profile for every DB statement and step body. Oracle: no quiescence before executor.run() returns/raises; at "
    "return every step is terminated with a terminal status; after draining, every step output port ends with a "
    "termination token; with an injected failure run() raises and nothing is left WAITING/FIREABLE/RUNNING. Second "
    "family (enumerated_cases): the deploy/schedule/transfer/execute shapes of the recovery checks (pipelines, scatter/"
    "gather fans, diamonds) under the dummy or no failure manager with 0..2 jobs failing in the schedule, transfer or "
    "execute phase while sibling jobs are still waiting for inputs: same oracle. "
    "non-trivial = non-zero delays applied or a fault fired; distinct = distinct loop digests"
)
COMPONENTS = {
    "real": ["StreamFlowExecutor", "Transformer.run", "ScatterStep", "GatherStep", "CombinatorStep", "ConditionalStep.run",
             "Dot/CartesianProductCombinator", "BaseStep.terminate", "Port", "SqliteDatabase", "DeployStep/ScheduleStep/TransferStep/ExecuteStep with DefaultScheduler, DefaultDataManager, LocalConnector (pipeline family)"],
    "stub": ["aiosqlite thread -> FIFO server", "SimTransformer.transform / SimConditional._eval (pure functions with seeded latency and injected raise)"],
}
ASSUMPTIONS = [
    "well-formed = acyclic, every input port has a producer or injected tokens followed by termination, scatter/gather nesting matches, every step reaches a workflow output port",
    "loops are exercised by C06; recovery of failed jobs by C16-C19 (here a failure must end the run)",
]
TIERS = {"quick": {"runs": 2500, "budget_s": 50}, "thorough": {"runs": 150000, "budget_s": 420}}
SIM_KW = {"max_steps": 400_000, "wall_cap": 60.0}


def cases(tier):
    # second family: deploy/schedule/transfer/execute pipelines (the shapes of the recovery checks) without a
    # recovering failure manager, where a failing job must end the whole run
    n = 500 if tier == "quick" else 30000
    return [{"mode": "pipeline"} for _ in range(n)] + [{"mode": "pipeline", "direct": True} for _ in range(n // 2)]


def run_pipeline(sim, params):
    t = sim.tape
    shape = S.gen_shape(t)
    if shape["kind"] == "sg" and params.get("direct"):
        # the scatter elements reach the execute step directly (no transfer step gated by the job port): after a failed
        # schedule the remaining elements still arrive
        shape = dict(shape, direct=True, m=1)
    jobs = sorted(S.jobs_of(shape))
    manager = ("dummy", "none")[t.draw(2, "manager")]
    faults = {}
    for _ in range((1, 1, 2, 0)[t.draw(4, "nfailing")]):
        faults[(S.PHASES[t.draw(3, "phase")], jobs[t.draw(len(jobs), "job")])] = [{"kind": "soft", "lose": []}]
    res = S.execute(sim, shape, faults, manager=manager if manager != "none" else None)
    d = S.desc(shape, faults) + f" manager={manager}"
    if res.status == "deadlock":
        raise Violation("deadlock", f"pipeline neither completed nor raised (loop quiescent); pending={[(p['task'], p['at'][-2:]) for p in res.deadlock][:6]}; {d}",
                        signature="deadlock:pipeline")
    reached = sum(sim.faults.values()) > 0
    if reached and res.status != "raised":
        raise Violation("failure_not_reported", f"a job failed without a recovering failure manager but executor.run() returned normally; {d}", signature="failure_not_reported:pipeline")
    if not reached and res.status != "ok":
        raise Violation("run_failed", f"executor raised without a fault having fired: errors={sim.errors[:3]}; {d}", signature="run_failed:pipeline")
    wf = res.wf
    if not reached:
        dag.check_all_terminated(wf, "at_return")
    sim.drain()
    dag.check_all_terminated(wf, "after_drain", failed=reached)
    for st in wf.steps.values():
        if st.status in (Status.WAITING, Status.FIREABLE, Status.RUNNING):
            raise Violation("step_left_running", f"after the run step {st.name} is {st.status.name}; {d}", signature="step_left_running:pipeline")
    sim.probe("pipeline." + res.status)
    sim.run(res.ctx.close())
    return {"nontrivial": reached or bool(sim.nondefault_delays), "sample": {"mode": "pipeline", "shape": shape, "manager": manager, "faults": [f"{p}:{j}" for p, j in faults], "status": res.status}}


def run(sim, params):
    if params.get("mode") == "pipeline":
        return run_pipeline(sim, params)
    t = sim.tape
    plan = dag.generate(t, max_nodes=12, allow_fail=True)
    desc = canon(plan.describe())[:1500]
    state = {}

    async def main():
        ctx = make_context(sim)
        wf = Workflow(context=ctx, name="w", config={})
        outputs = dag.build(plan, wf)
        state.update(wf=wf, ctx=ctx, outputs=outputs)
        await wf.save(ctx.database)
        await dag.inject_inputs(plan, ctx)
        ex = StreamFlowExecutor(wf)
        state["ex"] = ex
        try:
            res = await ex.run()
        except WorkflowExecutionException as e:
            return ("raised", e)
        return ("ok", res)

    status, val = sim.run(main())  # Quiescent -> deadlock violation (runner)
    wf = state["wf"]
    if plan.fail is not None:
        sim.fault("job_failure_injected")
        if status != "raised":
            raise Violation("failure_not_reported", f"a transformer raised but executor.run() returned normally; plan={desc}")
    else:
        if status == "raised":
            raise Violation("run_failed", f"executor raised without injected fault: errors={sim.errors[:3]}; plan={desc}",
                            signature=f"run_failed:{sim.errors[0][:2] if sim.errors else None}")
        # at the moment run() returned: every step already terminated
        dag.check_all_terminated(wf, "at_return")
    sim.drain()
    dag.check_all_terminated(wf, "after_drain", failed=plan.fail is not None)
    if plan.fail is not None:
        for st in wf.steps.values():
            if st.status in (Status.WAITING, Status.FIREABLE, Status.RUNNING):
                raise Violation("step_left_running", f"after failure step {st.name} is {st.status.name}; plan={desc}")
    for task in state["ex"].executions:
        if not task.done():
            raise Violation("step_task_pending", f"step task {task.get_name()} still pending at quiescence; plan={desc}")
    if plan.fail is None:
        for s in state["outputs"]:
            got = dag.port_multiset(s.port)
            want = dag.expected_multiset(s)
            if got != want:
                raise Violation("wrong_output", f"output {s.name}: got {got[:6]} expected {want[:6]}; plan={desc}")
    sim.run(state["ctx"].close())
    ops = sorted({n["op"] for n in plan.nodes})
    for o in ops:
        sim.probe(f"op.{o}")
    return {"sample": {"ops": [n["op"] for n in plan.nodes], "fail": plan.fail, "inputs": plan.inputs}}
