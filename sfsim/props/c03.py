"""C03 — ports deliver every token to every consumer exactly once, in order."""
from __future__ import annotations

import asyncio
import zlib

from ..core import Violation
from ..harness.engine import canon, make_context

from streamflow.core.workflow import Job, Port, Status, Token, Workflow
from streamflow.workflow.port import (
    BoundaryAction,
    FilterTokenPort,
    InterWorkflowJobPort,
    InterWorkflowPort,
    JobPort,
)
from streamflow.workflow.token import JobToken, TerminationToken

ID = "C03"
LEVEL = "exploration"
RULE = (
    "each run draws a port kind (Port, FilterTokenPort, JobPort, InterWorkflowPort, InterWorkflowJobPort), a "
    "sequence of 0..12 uniquely tagged tokens split over 1..3 producer tasks, 1..4 consumer tasks that subscribe "
    "at seed-chosen virtual times (before, between and after the puts, including after termination) and read with "
    "seed-chosen latencies, and for inter-workflow ports 1..3 boundary rules (PROPAGATE/TERMINATE/both; target self "
    "or another port; registered before the tokens or - for foreign targets - at a seed-chosen later time). "
    "Oracle: every consumer's received sequence is the admitted put sequence (object identity) up to the first "
    "termination; admitted/propagated sequences equal a reference model of the rules; late registration gives the "
    "same target sequence as early registration. non-trivial = a consumer subscribed after at least one put or a "
    "rule was registered late; distinct = distinct loop digests"
)
COMPONENTS = {
    "real": ["Port", "FilterTokenPort", "JobPort", "InterWorkflowPort", "InterWorkflowJobPort", "BoundaryRule", "asyncio.Queue"],
    "stub": ["producers/consumers are harness tasks with seeded latencies (no steps, no database)"],
}
ASSUMPTIONS = [
    "after a boundary's tag set has completed no further data token is put on that port (the statement is silent on it; DESIGN.md C03)",
    "rules targeting the port itself are registered before any token is put (as recovery does)",
]
TIERS = {"quick": {"runs": 6000, "budget_s": 45}, "thorough": {"runs": 400000, "budget_s": 420}}
SIM_KW = {"max_steps": 100_000, "wall_cap": 30.0}

KINDS = ("port", "filter", "job", "inter", "interjob")


def _model(kind, puts, rules, filter_mod):
    """Reference: returns (admitted_on_self, {target_index: [events]}) where events are
    ('tok', i) or ('term', status)."""
    self_seq = []
    targets = {i: [] for i, r in enumerate(rules) if r["target"] != "self"}
    remaining = [set(r["tags"]) for r in rules]
    for p in puts:
        if p[0] == "term":
            self_seq.append(p)
            continue
        _, i, tag = p
        if kind == "filter":
            if i % filter_mod != 0:
                continue
            self_seq.append(p)
            continue
        if kind in ("port", "job"):
            self_seq.append(p)
            continue
        matched_self = False
        for ri, r in enumerate(rules):
            remaining[ri].discard(tag)
            if not remaining[ri]:
                dst = self_seq if r["target"] == "self" else targets[ri]
                if "P" in r["action"]:
                    dst.append(p)
                if "T" in r["action"]:
                    dst.append(("term", "RECOVERED"))
                if r["target"] == "self":
                    matched_self = True
        if not matched_self:
            self_seq.append(p)
    return self_seq, targets


def _describe(seq, toks):
    out = []
    for t in seq:
        if isinstance(t, TerminationToken):
            out.append(("term", t.value.name))
        else:
            out.append(("tok", toks.index(t) if t in toks else -1, t.tag))
    return out


def run(sim, params):
    t = sim.tape
    kind = KINDS[t.draw(len(KINDS), "kind")]
    n = t.draw(13, "ntok")
    if n == 12:
        n = (12, 13, 20, 24)[t.draw(4, "ntok.big")]
    tags = [f"0.{i}" for i in range(n)]
    tags = t.shuffle(tags, "tagorder")
    nprod = 1 + t.draw(3, "nprod")
    ncons = 1 + t.draw(4, "ncons")
    filter_mod = 1 + t.draw(3, "filter.mod")
    rules = []
    if kind in ("inter", "interjob") and n > 0:
        for ri in range(1 + t.draw(3, "nrules")):
            target = ("self", "other")[t.draw(2, f"r{ri}.target")]
            action = ("P", "T", "PT")[t.draw(3, f"r{ri}.action")]
            ntags = 1 + t.draw(min(3, n), f"r{ri}.ntags")
            rtags = set(t.shuffle(tags, f"r{ri}.tags")[:ntags])
            mode = t.draw(3, f"r{ri}.mode")
            if mode == 0:
                rtags.add("9.9")  # never arrives: the rule must never fire
            else:
                rtags.add(tags[-1])  # completes exactly with the last data token
            late = 0
            if target == "other":
                late = t.draw(n + 2, f"r{ri}.late")  # register after this many puts (0 = before)
            rules.append({"target": target, "action": action, "tags": sorted(rtags), "late": late})
        # at most one self-targeting rule (recovery registers exactly one per port)
        seen_self = False
        for r in rules:
            if r["target"] == "self":
                if seen_self:
                    r["target"] = "other"
                seen_self = True
        # A TERMINATE-only rule on the port itself replaces the completing token by a termination
        # token, so that token never enters the port's own history; a rule registered afterwards
        # cannot see it. The statement does not say what late registration must do in that case
        # (C19 decides whether recovery can reach it), so such rules are registered up front.
        if any(r["target"] == "self" and r["action"] == "T" and "9.9" not in r["tags"] for r in rules):
            for r in rules:
                r["late"] = 0
    prod_of = [t.draw(nprod, "prod.of") for _ in range(n)]
    # consumers subscribe after k puts; half of them late in the history (long replays racing
    # with the remaining puts)
    cons_start = []
    for c in range(ncons):
        k = t.draw(n + 3, f"c{c}.start")
        if t.draw(2, f"c{c}.late") and n >= 4:
            k = max(k, n - 1 - t.draw(3, f"c{c}.back"))
        cons_start.append(k)
    info = {"kind": kind, "tags": tags, "rules": rules, "nprod": nprod, "cons_start": cons_start, "filter_mod": filter_mod}

    async def scenario(late_registration: bool):
        ctx = make_context(sim)
        wf = Workflow(context=ctx, name="w", config={})
        if kind == "port":
            port = wf.create_port(Port)
        elif kind == "filter":
            port = wf.create_port(FilterTokenPort, filter_function=lambda tok: int(tok.value) % filter_mod == 0)
        elif kind == "job":
            port = wf.create_port(JobPort)
        elif kind == "inter":
            port = wf.create_port(InterWorkflowPort)
        else:
            port = wf.create_port(InterWorkflowJobPort)
        jobby = kind in ("job", "interjob")
        toks = []
        for i, tag in enumerate(tags):
            if jobby:
                toks.append(JobToken(value=Job(name=f"/s/{tag}", workflow_id=0, inputs={}, input_directory=None,
                                               output_directory=None, tmp_directory=None), tag=tag))
            else:
                toks.append(Token(i, tag=tag))
        tports = {}
        for ri, r in enumerate(rules):
            if r["target"] == "other":
                tports[ri] = wf.create_port(Port, name=f"target{ri}")
        nput = [0]
        puts = []
        put_evt = asyncio.Condition()
        registered = set()

        def register_due():
            for ri, r in enumerate(rules):
                if ri in registered:
                    continue
                due = 0 if (not late_registration) else r["late"]
                if nput[0] >= due:
                    registered.add(ri)
                    port.add_inter_port(
                        port if r["target"] == "self" else tports[ri],
                        boundary_tags=list(r["tags"]),
                        boundary_action={"P": BoundaryAction.PROPAGATE, "T": BoundaryAction.TERMINATE,
                                         "PT": BoundaryAction.PROPAGATE | BoundaryAction.TERMINATE}[r["action"]],
                    )
                    if due:
                        sim.probe("rule_registered_late")

        register_due()
        # producers: a global order is fixed by handing out turns; latencies decide when each put happens
        turn = [0]

        async def producer(pi):
            for i in range(n):
                if prod_of[i] != pi:
                    continue
                while turn[0] != i:
                    async with put_evt:
                        await put_evt.wait()
                await sim.io("put", pi)
                port.put(toks[i])
                puts.append(("tok", i, tags[i]))
                nput[0] += 1
                register_due()
                turn[0] += 1
                async with put_evt:
                    put_evt.notify_all()

        received = {}
        sub_at = {}

        async def consumer(ci, p, name):
            while nput[0] < min(cons_start[ci], n) :
                async with put_evt:
                    await put_evt.wait()
            if cons_start[ci] > n:
                await done_evt.wait()
            sub_at[name] = nput[0]
            got = received.setdefault(name, [])
            while True:
                if jobby and p is port:
                    job = await p.get_job(name)
                    if job is None:
                        got.append("TERM")
                        break
                    got.append(job)
                else:
                    tok = await p.get(name)
                    got.append(tok)
                    if isinstance(tok, TerminationToken):
                        break
                await sim.io("get", name)

        done_evt = asyncio.Event()
        prods = [asyncio.create_task(producer(pi), name=f"prod{pi}") for pi in range(nprod)]
        conss = [asyncio.create_task(consumer(ci, port, f"c{ci}"), name=f"cons{ci}") for ci in range(ncons)]
        tcons = [asyncio.create_task(consumer(0, tp, f"t{ri}"), name=f"tcons{ri}") for ri, tp in tports.items()]
        await asyncio.gather(*prods)
        nput[0] = max(nput[0], n + 1)
        register_due()
        port.put(TerminationToken())
        puts.append(("term", "COMPLETED"))
        for tp in tports.values():
            tp.put(TerminationToken())
        done_evt.set()
        async with put_evt:
            put_evt.notify_all()
        await asyncio.gather(*conss, *tcons)
        await ctx.close()
        return port, tports, toks, puts, received, sub_at

    outcomes = []
    modes = [False] + ([True] if any(r["late"] for r in rules) else [])
    for late in modes:
        port, tports, toks, puts, received, sub_at = sim.run(scenario(late))
        exp_self, exp_targets = _model(kind, puts, rules, filter_mod)
        got_self = _describe(port.token_list, toks)
        want_self = [("tok", p[1], p[2]) if p[0] == "tok" else p for p in exp_self]
        if got_self != want_self:
            raise Violation("admitted_sequence", f"late={late}: port admitted {got_self} expected {want_self}; case={canon(info)[:800]}")
        tgt_desc = {}
        for ri, tp in tports.items():
            g = _describe(tp.token_list, toks)
            w = [("tok", p[1], p[2]) if p[0] == "tok" else p for p in exp_targets[ri]] + [("term", "COMPLETED")]
            tgt_desc[ri] = g
            if g != w:
                klass = "fired_early_or_wrong" if not late else "late_registration_differs"
                raise Violation(klass, f"late={late}: boundary target {ri} got {g} expected {w}; rule={rules[ri]}; case={canon(info)[:800]}")
        # consumers: admitted sequence up to and including the first termination, by identity
        first_term = next(i for i, x in enumerate(port.token_list) if isinstance(x, TerminationToken))
        admitted = port.token_list[: first_term + 1]
        for ci in range(len(received)):
            name = f"c{ci}"
            if name not in received:
                continue
            got = received[name]
            if kind in ("job", "interjob"):
                want = [x.value for x in admitted[:-1]] + ["TERM"]
                same = len(got) == len(want) and all(a is b for a, b in zip(got, want))
            else:
                want = admitted
                same = len(got) == len(want) and all(a is b for a, b in zip(got, want))
            if not same:
                raise Violation(
                    "consumer_sequence",
                    f"late={late}: consumer {name} (subscribed after {sub_at.get(name)} puts) received "
                    f"{[getattr(x, 'tag', x) if not isinstance(x, Job) else x.name for x in got]} expected "
                    f"{[getattr(x, 'tag', x) if not isinstance(x, Job) else x.name for x in want]}; case={canon(info)[:800]}",
                )
            if sub_at.get(name, 0) > 0:
                sim.probe("late_subscriber")
            if sub_at.get(name, 0) > n:
                sim.probe("subscriber_after_termination")
        outcomes.append(tgt_desc)
    if len(outcomes) == 2 and outcomes[0] != outcomes[1]:
        raise Violation("late_registration_differs", f"targets differ early={outcomes[0]} late={outcomes[1]}; case={canon(info)[:800]}")
    for r in rules:
        if "9.9" not in r["tags"]:
            sim.probe("boundary_completed")
        else:
            sim.probe("boundary_never_completes")
    nontrivial = sim.probes.get("late_subscriber", 0) > 0 or sim.probes.get("rule_registered_late", 0) > 0
    return {"nontrivial": nontrivial,
            "sample": {"kind": kind, "tags": tags, "rules": rules, "consumers_subscribe_after_n_puts": cons_start}}
