"""C05 — workflow results do not depend on the interleaving."""
from __future__ import annotations

from ..core import Sim, Violation
from ..tape import Tape
from ..harness import dag
from ..harness.engine import canon, make_context

from streamflow.core.exception import WorkflowExecutionException
from streamflow.core.workflow import Workflow
from streamflow.workflow.executor import StreamFlowExecutor

ID = "C05"
LEVEL = "exploration"
RULE = (
    "each run draws one workload (DAG as in C04, no faults) from a workload seed and executes it under K+1 "
    "schedules inside the same simulated process: the zero-delay FIFO baseline plus K (quick 3, thorough 8) "
    "seed-chosen delay profiles / task-identity orders. Oracle: for every workflow output port the multiset of "
    "(tag,value) is identical across all schedules and equals the sequential reference evaluation; run()'s "
    "returned value is compared for single-token ports. non-trivial = at least one of the K schedules applied "
    "non-zero delays; distinct = distinct (workload, schedule) digests"
)
COMPONENTS = {
    "real": ["StreamFlowExecutor", "Transformer.run", "ScatterStep", "GatherStep", "CombinatorStep", "ConditionalStep.run",
             "Dot/CartesianProductCombinator", "Port", "SqliteDatabase", "get_token_value"],
    "stub": ["aiosqlite thread -> FIFO server", "SimTransformer / SimConditional pure functions with seeded latency"],
}
ASSUMPTIONS = ["same generator as C04 without faults; job-completion order is varied through per-tag latencies of the step bodies"]
TIERS = {"quick": {"runs": 700, "budget_s": 50, "params": {"K": 3}}, "thorough": {"runs": 40000, "budget_s": 420, "params": {"K": 8}}}
SIM_KW = {"max_steps": 1_500_000, "wall_cap": 90.0}


def run(sim, params):
    t = sim.tape
    wseed = t.draw(1 << 30, "workload.seed")
    K = params.get("K", 3)
    results = []
    first_desc = None
    for k in range(K + 1):
        plan = dag.generate(Tape(seed=wseed), max_nodes=12, allow_fail=False)
        desc = canon(plan.describe())[:1200]
        if k == 0:
            sim.profile = 0
        else:
            sim.profile = 1 + t.draw(4, f"profile{k}")
            sim.kind_scale.clear()
            sim.entity_slow.clear()
        state = {}

        async def main():
            ctx = make_context(sim)
            wf = Workflow(context=ctx, name=f"w{k}", config={})
            outputs = dag.build(plan, wf)
            state.update(ctx=ctx, outputs=outputs, wf=wf)
            await wf.save(ctx.database)
            await dag.inject_inputs(plan, ctx)
            try:
                return await StreamFlowExecutor(wf).run()
            except WorkflowExecutionException as e:
                raise Violation("run_failed", f"schedule#{k}: executor raised without fault: {sim.errors[:2]}; plan={desc}")

        ret = sim.run(main())
        sim.drain()
        got = {s.name: dag.port_multiset(s.port) for s in state["outputs"]}
        want = {s.name: dag.expected_multiset(s) for s in state["outputs"]}
        single = {}
        for s in state["outputs"]:
            if len(s.expected) == 1:
                single[s.name] = canon(ret.get(s.name))
                exp_val = canon(next(iter(s.expected.values())))
                if single[s.name] != exp_val:
                    raise Violation("wrong_return_value", f"schedule#{k}: run() returned {single[s.name][:300]} for {s.name}, expected {exp_val[:300]}; plan={desc}")
        if got != want:
            bad = next(n for n in got if got[n] != want[n])
            raise Violation("differs_from_reference", f"schedule#{k} (profile {sim.profile}): output {bad}: got {got[bad][:5]} expected {want[bad][:5]}; plan={desc}")
        results.append((got, single))
        if results[0] != results[-1]:
            raise Violation("interleaving_dependent", f"outputs differ between baseline and schedule#{k}; plan={desc}")
        sim.run(state["ctx"].close())
    for n in plan.nodes:
        sim.probe(f"op.{n['op']}")
    return {"sample": {"workload_seed": wseed, "ops": [n["op"] for n in plan.nodes], "schedules": K + 1,
                       "outputs": {k: len(v) for k, v in results[0][0].items()}}}
