"""C22 — transfers reproduce the source data exactly."""
from __future__ import annotations

import asyncio
import io
import os
import subprocess
import tarfile
import zlib

from ..core import Violation, repo_frame_of
from ..harness import shellconn  # noqa: F401
from ..harness import simstream as SS
from ..harness.engine import canon, make_context
from .. import simproc

from streamflow.core.data import DataType
from streamflow.core.deployment import DeploymentConfig, ExecutionLocation

ID = "C22"
LEVEL = "exploration"
RULE = (
    "each run builds a real source tree (single file or 0..9 entries quick / 0..30 thorough: empty files and dirs, "
    "sizes around the tar block, up to 70 KiB thorough, exec bits, symlinks inside the tree, names with spaces, "
    "quotes, unicode, leading dashes, > 100 bytes) on a seed-chosen source location and runs 1..3 concurrent "
    "DefaultDataManager.transfer_data calls over a seed-chosen pair of location kinds: local->local, local->remote "
    "(1 or 2 destination locations), remote->local, remote->remote on another location / the same location / "
    "another deployment / two locations including the source one; writable or read-only; destination missing, "
    "existing directory, or renamed. Remote deployments are shell-based (SimShellConnector: real BaseConnector copy "
    "code, real tar/sh/cp/ln per location in a private mount namespace). Schedule: transferBufferSize 64..65536, "
    "how pipe reads are cut, per-chunk latency, interleaving of the concurrent transfers. Faults (separate runs): "
    "the receiving tar dies after k bytes, the sending tar's stream is cut after k bytes. Oracle: on success the "
    "destination, read back inside the location's namespace with symlinks dereferenced, equals the source tree "
    "(contents, structure, exec bits) and get_data_locations reports an available copy there; with a fault the "
    "transfer raises or the destination is complete - never success with missing or short files. non-trivial = a "
    "remote location, a fault, or concurrent transfers were involved; distinct = digests of (tree, pair, options)"
)
COMPONENTS = {
    "real": ["DefaultDataManager.transfer_data, _copy, register_path/register_relation", "connector.base copy_local_to_remote / copy_remote_to_local / copy_remote_to_remote / copy_same_connector, extract_tar_stream",
             "core.utils.get_local_to_remote_destination / get_remote_to_remote_write_command", "LocalConnector._local_copy", "aiotarstream reader and writer",
             "RemoteStreamFlowPath / LocalStreamFlowPath (mkdir, is_dir, is_symlink, resolve)", "BaseShell persistent shell", "real tar / sh / cp / ln"],
    "stub": ["simproc: process spawn/pipe seam (real children, simulated timing, chunking and death)", "SimShellConnector transport; each location is a directory bind-mounted in a private mount namespace"],
}
ASSUMPTIONS = ["wrapped (stacked) remote locations are not generated: the harness has no container runtime; C21 covers the registry side of mount points",
               "a destination that already exists as a directory receives the source inside it (basename appended), as transfer_data registers it"]
TIERS = {"quick": {"runs": 500, "budget_s": 120, "chunk": 4}, "thorough": {"runs": 40000, "budget_s": 480, "chunk": 8, "params": {"big": True}}}
STALL_S = 600   # real child processes: a chunk may need minutes on a loaded machine
SIM_KW = {"max_steps": 3_000_000, "wall_cap": 60.0, "max_vtime": 1e7}

PAIRS = ("L-L", "L-R", "L-R2", "R-L", "R-Rother", "R-Rsame", "R-R2dep", "R-Rboth")
TOPS = {"plain": None, "space": "dir with space", "squote": "q'uote", "dquote": 'd"q', "unicode": "ünï ✓", "dash": "-dash", "dollar": "do$llar", "glob": "st*r"}


def snapshot(conn, locname, vpath, scratch, tag):
    """Read `vpath` as location `locname` sees it (symlinks dereferenced) into a host directory."""
    parent, base = os.path.split(vpath.rstrip("/"))
    argv = ["tar", "-chf", "-", "-C", parent, "./" + base]
    if conn is not None:
        argv = simproc.real_argv([simproc.EXEC_TAG, conn.roots[locname], "--", *argv], conn.sim)
    p = subprocess.run(argv, capture_output=True)
    out = os.path.join(scratch, f"snap-{tag}")
    os.makedirs(out, exist_ok=True)
    try:
        with tarfile.open(fileobj=io.BytesIO(p.stdout), mode="r:") as tf:
            tf.extractall(out, filter="fully_trusted")
    except tarfile.TarError:
        pass
    return SS.read_tree(os.path.join(out, base)), p.stderr.decode("utf-8", "replace")[:200]


def run(sim, params):
    t = sim.tape
    big = params.get("big", False)
    pair = params.get("pair") or PAIRS[t.draw(len(PAIRS), "pair")]
    ntr = 1 + (t.draw(4, "ntransfers") == 0) + (t.draw(6, "ntransfers3") == 0)
    bufsize = (64, 512, 4096, 65536)[t.draw(4, "bufsize")]
    cutpol = ("all", "all", "7", "513", "random")[t.draw(5, "cut")]
    fault = ("none", "none", "none", "writer_dies", "reader_cut")[t.draw(5, "fault")] if pair not in ("L-L", "R-Rsame") else "none"
    topcls = list(TOPS)[t.draw(len(TOPS), "top.class")] if t.draw(3, "top.hostile") == 0 else "plain"
    info = {"pair": pair, "transfers": ntr, "bufsize": bufsize, "cut": cutpol, "fault": fault, "top": topcls}

    def cut(reader, avail):
        if cutpol == "all":
            return avail
        if cutpol == "random":
            return 1 + t.draw(3000, "cut.n")
        return int(cutpol)

    sim.info["pipe_cut"] = cut
    fault_state = {"armed": fault != "none", "fired": False}

    def proc_model(proc):
        cmdline = " ".join(proc.orig_argv)
        if fault_state["armed"] and "tar" in cmdline:
            if fault == "writer_dies" and proc.kind == "writer" and "xpf" in cmdline or fault == "writer_dies" and proc.kind == "writer" and " xf" in cmdline:
                fault_state["armed"] = False
                fault_state["fired"] = True
                return {"die_after": 1 + t.draw(6000, "fault.at")}
            if fault == "reader_cut" and proc.kind == "reader" and "chf" in cmdline:
                fault_state["armed"] = False
                fault_state["fired"] = True
                return {"truncate_at": 1 + t.draw(6000, "fault.at")}
        return {"duration": (0, 0, 1, 5)[t.draw(4, "proc.dur")], "segments": 1 + t.draw(4, "proc.seg")}

    sim.info["proc_model"] = proc_model
    outcome = []
    state = {}

    async def main():
        ctx = make_context(sim)
        dm = ctx.data_manager
        from streamflow.core.deployment import LocalTarget

        await ctx.deployment_manager.deploy(LocalTarget().deployment)
        local = ExecutionLocation(name="__LOCAL__", deployment="__LOCAL__", local=True)
        conns = {}
        for dep, locs in (("remA", ["n0", "n1"]), ("remB", ["m0"])):
            if "R" in pair:
                await ctx.deployment_manager.deploy(DeploymentConfig(name=dep, type="simshell", config={"locations": locs, "transferBufferSize": bufsize},
                                                                     external=False, lazy=False, workdir=None))
                conns[dep] = ctx.deployment_manager.get_connector(dep)
        lc = ctx.deployment_manager.get_connector("__LOCAL__")
        lc.transferBufferSize = bufsize
        # ---- where source and destinations live -----------------------------------------------------
        if pair.startswith("L"):
            src_loc, src_conn, src_host_root, src_vroot = local, None, os.path.join(sim.scratch, "lsrc"), os.path.join(sim.scratch, "lsrc")
        else:
            c = conns["remA"]
            src_loc, src_conn, src_host_root, src_vroot = c.location("n0"), c, os.path.join(c.roots["n0"], "src"), os.path.join(c.visible_root("n0"), "src")
        os.makedirs(src_host_root, exist_ok=True)
        top, spec = SS.make_tree(src_host_root, t, big=big)
        if "" in spec and spec[""][0] == "dir" and t.draw(3, "tree.empty_exec") == 2:
            # an EMPTY file with the executable bit: no data block follows its header, the mode must still be restored
            with open(os.path.join(src_host_root, top, "empty-exec.sh"), "w"):
                pass
            os.chmod(os.path.join(src_host_root, top, "empty-exec.sh"), 0o755)
            spec["empty-exec.sh"] = ("file", b"", 0o755)
        if TOPS[topcls] is not None and "" in spec:
            new = TOPS[topcls] + ("" if spec[""][0] == "dir" else ".dat")
            os.rename(os.path.join(src_host_root, top), os.path.join(src_host_root, new))
            top = new
        src_v = os.path.join(src_vroot, top)
        import re as _re

        info["name_class"] = ("plain" if _re.fullmatch(r"[A-Za-z0-9._]+", top) else
                              "leading_dash" if top.startswith("-") else "space" if " " in top and _re.fullmatch(r"[A-Za-z0-9._ ]+", top) else "shell_metacharacters")
        info["tree"] = {"top": top, "entries": len(spec), "kind": spec[""][0], "bytes": sum(len(v[1]) for v in spec.values() if v[0] == "file")}
        dm.register_path(src_loc, src_v, os.path.basename(src_v))
        want = SS.expected_files(spec)

        def dst_of(k):
            if pair in ("L-L", "R-L"):
                root = os.path.join(sim.scratch, "ldst")
                return [(local, None, root, root)]
            if pair in ("L-R", "R-Rother"):
                c = conns["remA"]
                return [(c.location("n1"), c, c.roots["n1"], c.visible_root("n1"))]
            if pair == "L-R2":
                c = conns["remA"]
                return [(c.location(n), c, c.roots[n], c.visible_root(n)) for n in ("n0", "n1")]
            if pair == "R-Rsame":
                c = conns["remA"]
                return [(c.location("n0"), c, c.roots["n0"], c.visible_root("n0"))]
            if pair == "R-R2dep":
                c = conns["remB"]
                return [(c.location("m0"), c, c.roots["m0"], c.visible_root("m0"))]
            c = conns["remA"]
            return [(c.location(n), c, c.roots[n], c.visible_root(n)) for n in ("n0", "n1")]

        async def transfer(k):
            dsts = dst_of(k)
            writable = bool(t.draw(2, "writable"))
            mode = ("missing", "missing", "existing_dir", "renamed")[t.draw(4, "dst.mode")]
            name = top if mode != "renamed" else ("renamed" + ("" if spec[""][0] == "dir" else ".bin"))
            vdst = os.path.join(dsts[0][3], f"job{k}", "in", name) if mode != "existing_dir" else os.path.join(dsts[0][3], f"job{k}", "in")
            if mode == "existing_dir":
                for (_, _, hroot, _) in dsts:
                    os.makedirs(os.path.join(hroot, f"job{k}", "in"), exist_ok=True)
            final = vdst if mode != "existing_dir" else os.path.join(vdst, top)
            rec = {"k": k, "writable": writable, "mode": mode, "dst": vdst, "final": final, "dsts": dsts}
            await sim.io("transfer.start", k)
            try:
                await dm.transfer_data(src_location=src_loc, src_path=src_v, dst_locations=[d[0] for d in dsts], dst_path=vdst, writable=writable)
                rec["status"] = "ok"
            except asyncio.CancelledError:
                raise
            except Exception as e:
                rec["status"] = "raised"
                rec["error"] = f"{type(e).__name__} at {repo_frame_of(e.__traceback__)}: {e}"[:300]
            outcome.append(rec)

        await asyncio.gather(*(asyncio.create_task(transfer(k), name=f"transfer{k}") for k in range(ntr)))
        state.update(ctx=ctx, dm=dm, want=want, conns=conns)
        # ---- oracle (while the deployments are still up) -----------------------------------------------
        group = "R-R" if pair in ("R-Rother", "R-R2dep", "R-Rboth") else pair
        ncls = info["name_class"]
        for rec in sorted(outcome, key=lambda r: r["k"]):
            opts = {"writable": rec["writable"], "dst": rec["mode"]}
            faulted = fault_state["fired"]
            for (loc, conn, hroot, vroot) in rec["dsts"]:
                got, err = snapshot(conn, loc.name, rec["final"], sim.scratch, f"{rec['k']}-{loc.name}") if conn is not None else (SS.read_tree(rec["final"]), "")
                d = SS.diff_trees(want, got)
                if rec["status"] == "ok":
                    if d:
                        if faulted and not (d.endswith("executable bit differs") and d.count(";") == 0):
                            raise Violation("silent_partial_copy", f"{fault} was injected, transfer {rec['k']} ({pair}, {opts}) reported success but the destination on {loc.name} differs: {d}; "
                                            f"case={canon(info)}", signature=f"silent_partial_copy:{fault}:{group}")
                        if rec["mode"] == "existing_dir" and d == "missing ''":
                            hostdir = conn.real_path(loc.name, rec["dst"]) if conn is not None else rec["dst"]
                            others = sorted(os.listdir(hostdir)) if os.path.isdir(hostdir) else []
                            if others:
                                raise Violation("destination_differs", f"transfer {rec['k']} ({pair}, {opts}) succeeded and registered {rec['final']!r} on {loc.name}, but the copy "
                                                f"was created in that directory under another name: {others}; case={canon(info)}", signature=f"copy_misnamed_in_existing_dir:{'local' if conn is None else 'remote'}")
                        raise Violation("destination_differs", f"transfer {rec['k']} ({pair}, {opts}) succeeded but the destination {rec['final']!r} on {loc.name} differs: {d} ({err}); "
                                        f"case={canon(info)}", signature=(f"name_not_verbatim:{ncls}:{group}" if ncls != "plain" and "executable bit" not in d else
                                                   f"destination_differs:{group}:{rec['mode']}:{info['tree']['kind']}:{d.split(':')[-1].strip().split(' ')[0] if ':' in d else d.split(' ')[0]}"))
                    regs = dm.get_data_locations(rec["final"], deployment=loc.deployment, location_name=loc.name)
                    if not regs or not all(r.available.is_set() for r in regs):
                        raise Violation("not_registered", f"transfer {rec['k']} ({pair}, {opts}) succeeded but {rec['final']!r} is not registered as an available copy on {loc.name}: {regs}; "
                                        f"case={canon(info)}", signature=f"not_registered:{pair}:{rec['mode']}")
                else:
                    if not faulted:
                        raise Violation("transfer_raised", f"transfer {rec['k']} ({pair}, {opts}) raised without any fault: {rec['error']}; case={canon(info)}",
                                        signature=(f"name_not_verbatim:{ncls}:{group}" if ncls != "plain" else f"transfer_raised:{group}:{rec['mode']}:{info['tree']['kind']}"))
                    sim.probe("fault_reported")
        await ctx.deployment_manager.undeploy_all()
        await ctx.close()

    sim.run(main())
    if fault_state["fired"]:
        sim.fault(fault)
    nontrivial = "R" in pair or ntr > 1
    sig = zlib.crc32(canon([info, [(r["k"], r["writable"], r["mode"]) for r in outcome]]).encode())
    return {"nontrivial": nontrivial, "sig": sig, "sample": info}
