"""C21 — the data-location registry answers consistently with its history."""
from __future__ import annotations

import asyncio
import os
import posixpath

from .. import core
from ..core import Violation
from ..harness.engine import canon, make_context
from ..loop import Quiescent

from streamflow.core.data import DataType
from streamflow.core.deployment import DeploymentConfig
from streamflow.core.exception import WorkflowExecutionException
from streamflow.deployment.connector import connector_classes
from streamflow.deployment.connector.local import LocalConnector

ID = "C21"
LEVEL = "exploration"
RULE = (
    "each run draws 10..50 operations - register_path (PRIMARY / SYMBOLIC_LINK, depth 1..4 trees), "
    "register_relation, invalidate_location, get_data_locations with every filter combination, get_source_location - "
    "over 1..3 local-filesystem deployments with real scratch directories, interleaved with 0..3 in-flight "
    "transfer_data calls whose copies take virtual time and may fail. Oracle: every query equals a reference model of "
    "the registry history; statement-level invariants: after invalidating p on a location no entry of that location at "
    "or beneath p is reported, entries of other locations are untouched, a re-registered path is reported again, "
    "get_source_location (also issued while the transfer of that path is in flight) returns only a valid PRIMARY copy and always returns; a failed transfer may be retried to the same destination (bounded liveness: quiescence with a "
    "parked lookup after a failed transfer is a violation); a successful transfer leaves an available copy. "
    "non-trivial = at least one invalidation or transfer happened; distinct = loop digests"
)
COMPONENTS = {
    "real": ["DefaultDataManager (register_path, register_relation, invalidate_location, get_data_locations, get_source_location, transfer_data)",
             "_RemotePathMapper", "LocalStreamFlowPath (real filesystem)", "LocalConnector._local_copy"],
    "stub": ["SimLocalConnector: LocalConnector whose copies take simulated time and can be made to fail"],
}
ASSUMPTIONS = ["operations on never-registered paths are not generated (the registry raises KeyError for them)",
               "wrapped locations with mount points are exercised by C22's transfer scenarios"]
TIERS = {"quick": {"runs": 3000, "budget_s": 50}, "thorough": {"runs": 200000, "budget_s": 420}}
SIM_KW = {"max_steps": 300_000, "wall_cap": 60.0}


class SimLocalConnector(LocalConnector):
    fail_next = 0

    async def copy_local_to_remote(self, src, dst, locations, read_only=False):
        sim = core.CURRENT
        await sim.io("copy", self.deployment_name, extra=sim.info.get("copy_time", 0))
        if sim.info.get("fail_copies", 0) > 0:
            sim.info["fail_copies"] -= 1
            sim.fault("copy_fails")
            raise WorkflowExecutionException(f"injected copy failure {src} -> {dst}")
        await super().copy_local_to_remote(src, dst, locations, read_only)

    copy_remote_to_local = copy_local_to_remote


connector_classes["simlocalconn"] = SimLocalConnector


class Model:
    def __init__(self):
        self.entries = []        # id -> dict(dep, path, type, valid)
        self.visible = {}        # node path -> [ids]
        self.valid_paths = {}    # node path -> dep -> set(paths)

    def _put(self, node, i):
        e = self.entries[i]
        vp = self.valid_paths.setdefault(node, {}).setdefault(e["dep"], set())
        if e["path"] in vp:
            return False
        self.visible.setdefault(node, []).append(i)
        vp.add(e["path"])
        return True

    def register(self, dep, path, typ):
        """register_path always creates and returns a fresh DataLocation for `path`; it (and fresh
        PRIMARY entries for the ancestor directories) enter the tree bottom-up until a level is
        found where that path is already valid."""
        chain = []
        p = path
        while True:
            chain.append(p)
            if p == os.sep:
                break
            p = os.path.dirname(p)
        self.entries.append({"dep": dep, "path": path, "type": typ, "valid": True})
        first = len(self.entries) - 1
        for p in chain:  # bottom-up
            if p == path:
                i = first
            else:
                self.entries.append({"dep": dep, "path": p, "type": "PRIMARY", "valid": True})
                i = len(self.entries) - 1
            if not self._put(p, i):
                break
        return first

    def invalidate(self, dep, path):
        for i in self.visible.get(path, []):
            e = self.entries[i]
            if e["dep"] == dep:
                e["valid"] = False
                # an invalidated entry frees its path everywhere it was linked, so that the path can be registered again
                for node, ids in self.visible.items():
                    if i in ids:
                        self.valid_paths[node][dep].discard(e["path"])
        for node in list(self.visible):
            if os.path.dirname(node) == path and node != path:
                for i in list(self.visible[node]):
                    e = self.entries[i]
                    if e["dep"] == dep and e["valid"]:
                        self.invalidate(e["dep"], e["path"])

    def relate(self, a, b):
        for x in list(self.visible.get(self.entries[a]["path"], [])):
            if not self.entries[x]["valid"] or not self.entries[b]["valid"]:
                continue  # an invalidated location is never linked again
            self._put(self.entries[x]["path"], b)
            self._put(self.entries[b]["path"], x)

    def query(self, path, dep=None, typ=None):
        out = []
        for i in self.visible.get(path, []):
            e = self.entries[i]
            if not e["valid"] or (dep is not None and e["dep"] != dep) or (typ is not None and e["type"] != typ):
                continue
            out.append((e["dep"], e["path"], e["type"]))
        return sorted(out)


def run(sim, params):
    t = sim.tape
    ndep = 1 + t.draw(3, "ndep")
    nops = 10 + t.draw(41, "nops")
    ntransfers = t.draw(4, "ntransfers")
    sim.info["copy_time"] = (0, 1, 5)[t.draw(3, "copy.time")]
    sim.info["fail_copies"] = (0, 0, 1, 2)[t.draw(4, "fail.copies")]
    hist = []

    async def main():
        ctx = make_context(sim)
        dm = ctx.data_manager
        locs = {}
        roots = {}
        for d in range(ndep):
            name = f"dep{d}"
            root = os.path.join(sim.scratch, name)
            os.makedirs(root, exist_ok=True)
            cfg = DeploymentConfig(name=name, type="simlocalconn", config={}, external=True, lazy=False, workdir=root)
            await ctx.deployment_manager.deploy(cfg)
            conn = ctx.deployment_manager.get_connector(name)
            locs[name] = next(iter((await conn.get_available_locations()).values())).location
            roots[name] = root
        model = Model()
        handles = {}   # (dep, path) -> (DataLocation, model id)
        registered = []  # (dep, path)
        invalidated = 0

        def rel_paths(dep):
            tree = ["a", "a/b", "a/b/c", "a/b/c/d", "a/x", "e", "e/f", "e/x"]
            return [os.path.join(roots[dep], p) for p in tree]

        def check_query(path, dep, typ):
            got = sorted((dl.deployment, dl.path, dl.data_type.name) for dl in dm.get_data_locations(
                path, deployment=dep, location_name=("__LOCAL__" if dep and t.draw(2, "q.name") else None),
                data_type=(None if typ is None else DataType[typ])))
            want = model.query(path, dep, typ)
            if got != want:
                raise Violation("query_mismatch", f"get_data_locations({path!r}, deployment={dep}, type={typ}) -> {got} but the registry history implies {want}; history={hist[-25:]}",
                                signature="query_mismatch")

        pending_transfers = []

        async def transfer(k):
            src_dep = f"dep{t.draw(ndep, 'tr.src')}"
            dst_dep = f"dep{t.draw(ndep, 'tr.dst')}"
            src = os.path.join(roots[src_dep], f"tr{k}.txt")
            with open(src, "w") as f:
                f.write(f"data{k}")
            dm.register_path(locs[src_dep], src, os.path.basename(src))
            dst = os.path.join(roots[dst_dep], f"job{k}", f"tr{k}.txt")
            await sim.io("transfer.start", k)
            writable = bool(t.draw(2, "tr.writable"))
            retry = bool(t.draw(2, "tr.retry"))

            async def watcher():
                # a consumer looking the destination up while the copy is in flight: it may get nothing,
                # or a valid available PRIMARY copy whose file exists - never an invalid or unfinished one
                await sim.io("watch", k, extra=t.draw(4, "watch.at"))
                res = await asyncio.wait_for(dm.get_source_location(dst, dst_dep), timeout=10_000)
                sim.probe("lookup_during_transfer")
                if res is not None:
                    if res.data_type != DataType.PRIMARY:
                        raise Violation("invalid_source", f"get_source_location({dst!r}) issued while its transfer was in flight returned a {res.data_type.name} copy",
                                        signature="invalid_source:lookup_during_transfer")
                    if not os.path.exists(res.path) or open(res.path).read() != f"data{k}":
                        raise Violation("invalid_source", f"get_source_location({dst!r}) issued while its transfer was in flight returned {res.path}, which does not hold the data",
                                        signature="invalid_source:lookup_during_transfer")

            wt = asyncio.create_task(watcher(), name=f"transfer{k}w")
            ok = False
            for attempt in range(2 if retry else 1):
                try:
                    await dm.transfer_data(src_location=locs[src_dep], src_path=src, dst_locations=[locs[dst_dep]], dst_path=dst, writable=writable)
                    ok = True
                    break
                except WorkflowExecutionException:
                    ok = False
                    sim.probe("transfer_failed")
                    if attempt == 0 and retry:
                        sim.probe("transfer_retried_same_destination")
            if ok:
                sim.probe("transfer_ok")
            try:
                await wt
            except (asyncio.TimeoutError, TimeoutError):
                raise Violation("lookup_hangs", f"get_source_location({dst!r}) issued during the transfer never returns", signature="lookup_hangs:during_transfer")
            # whatever happened, a later lookup of the destination must return
            try:
                res = await asyncio.wait_for(dm.get_source_location(dst, dst_dep), timeout=10_000)
            except (asyncio.TimeoutError, TimeoutError):
                raise Violation("lookup_hangs", f"get_source_location({dst!r}) never returns after a {'successful' if ok else 'failed'} transfer (the destination copy stays registered but never becomes available)",
                                signature="lookup_hangs:after_" + ("successful" if ok else "failed") + "_transfer")
            if ok:
                if res is None or not os.path.exists(res.path):
                    raise Violation("transfer_not_registered", f"after a successful transfer get_source_location({dst!r}) -> {res and res.path}", signature="transfer_not_registered")
                if open(res.path).read() != f"data{k}":
                    raise Violation("transfer_wrong_content", f"copy at {res.path} differs from the source", signature="transfer_wrong_content")
            elif res is not None and res.data_type != DataType.PRIMARY:
                raise Violation("invalid_source", f"get_source_location returned a {res.data_type.name} copy", signature="invalid_source")

        tasks = [asyncio.create_task(transfer(k), name=f"transfer{k}") for k in range(ntransfers)]
        for op_i in range(nops):
            await sim.io("op", op_i % 3)
            kind = t.draw(10, "op")
            dep = f"dep{t.draw(ndep, 'dep')}"
            paths = rel_paths(dep)
            if kind <= 2 or not registered:
                path = paths[t.draw(len(paths), "path")]
                typ = ("PRIMARY", "PRIMARY", "SYMBOLIC_LINK")[t.draw(3, "type")]
                dl = dm.register_path(locs[dep], path, os.path.basename(path), DataType[typ])
                i = model.register(dep, path, typ)
                handles[(dep, path)] = (dl, i)
                if (dep, path) not in registered:
                    registered.append((dep, path))
                hist.append(("register", dep, os.path.relpath(path, sim.scratch), typ))
                if not dm.get_data_locations(path, deployment=dep):
                    raise Violation("registered_path_not_reported", f"{path} not reported on {dep} right after register_path; history={hist}", signature="registered_path_not_reported")
            elif kind == 3 and len(registered) >= 2:
                a = registered[t.draw(len(registered), "rel.a")]
                # relations link copies of the same data: the same relative path on another location, or
                # a leaf with the same name in another directory of the same location (what transfers
                # and symbolic links register)
                cands = [x for x in registered if (x[0] != a[0] and os.path.relpath(x[1], roots[x[0]]) == os.path.relpath(a[1], roots[a[0]])) or
                         (x[0] == a[0] and x[1] != a[1] and os.path.basename(x[1]) == os.path.basename(a[1]) == "x")]
                b = cands[t.draw(len(cands), "rel.b")] if cands else a
                if a != b:
                    if a[0] == b[0]:
                        sim.probe("relation_same_location")
                    dm.register_relation(handles[a][0], handles[b][0])
                    model.relate(handles[a][1], handles[b][1])
                    hist.append(("relate", a[0], os.path.relpath(a[1], sim.scratch), b[0], os.path.relpath(b[1], sim.scratch)))
                    sim.probe("relation")
            elif kind == 4:
                d2, path = registered[t.draw(len(registered), "inv")]
                before_other = {dd: sorted((dl.deployment, dl.path) for p in rel_paths(dd) for dl in dm.get_data_locations(p, deployment=dd)) for dd in roots if dd != d2}
                dm.invalidate_location(locs[d2], path)
                model.invalidate(d2, path)
                invalidated += 1
                hist.append(("invalidate", d2, os.path.relpath(path, sim.scratch)))
                sim.probe("invalidation")
                for p in rel_paths(d2):
                    if p == path or p.startswith(path + os.sep):
                        bad = [dl.path for dl in dm.get_data_locations(p, deployment=d2) if dl.path == p or dl.path.startswith(path + os.sep)]
                        if bad:
                            raise Violation("invalidation_incomplete", f"after invalidating {path} on {d2}, {bad} is still reported; history={hist[-6:]}", signature="invalidation_incomplete")
                after_other = {dd: sorted((dl.deployment, dl.path) for p in rel_paths(dd) for dl in dm.get_data_locations(p, deployment=dd)) for dd in roots if dd != d2}
                if before_other != after_other:
                    raise Violation("invalidation_leaks", f"invalidating {path} on {d2} changed what other locations report; history={hist[-6:]}", signature="invalidation_leaks")
            elif kind <= 7:
                d2, path = registered[t.draw(len(registered), "q")]
                qd = (None, d2, dep)[t.draw(3, "q.dep")]
                qt = (None, "PRIMARY", "SYMBOLIC_LINK")[t.draw(3, "q.type")]
                check_query(path, qd, qt)
                sim.probe("query")
            else:
                d2, path = registered[t.draw(len(registered), "src")]
                res = await asyncio.wait_for(dm.get_source_location(path, dep), timeout=10_000)
                want = model.query(path, None, "PRIMARY")
                if res is None:
                    if want:
                        raise Violation("source_missing", f"get_source_location({path!r}) -> None although valid PRIMARY copies exist: {want}; history={hist[-6:]}", signature="source_missing")
                else:
                    if (res.deployment, res.path, "PRIMARY") not in want or res.data_type != DataType.PRIMARY:
                        raise Violation("invalid_source", f"get_source_location({path!r}) -> ({res.deployment}, {res.path}, {res.data_type.name}) which is not a valid PRIMARY copy {want}", signature="invalid_source")
                sim.probe("source_lookup")
        await asyncio.gather(*tasks)
        await ctx.close()
        return invalidated

    try:
        inv = sim.run(main())
    except Quiescent:
        rep = sim.deadlock_report()
        where = [p["at"][-2:] for p in rep if p["task"].startswith("transfer") or p["task"] == "T1"]
        raise Violation("lookup_hangs", f"the registry parked a caller forever: {where[:4]}", signature="lookup_hangs:quiescent")
    return {"nontrivial": inv > 0 or ntransfers > 0, "sample": {"deployments": ndep, "ops": nops, "transfers": ntransfers, "history_tail": hist[-5:]}}
