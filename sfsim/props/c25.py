"""C25 — commands run exactly once with verbatim arguments, environment and output."""
from __future__ import annotations

import asyncio
import os
import re
import subprocess

from ..core import Violation, repo_frame_of
from ..harness import shellconn  # noqa: F401  (registers the "simshell" connector type)
from ..harness.engine import canon, make_context

from streamflow.core.deployment import DeploymentConfig, ExecutionLocation
from streamflow.core.exception import WorkflowExecutionException
from streamflow.deployment.template import CommandTemplateMap

ID = "C25"
LEVEL = "exploration"
RULE = (
    "each run draws a variant (LocalConnector.run; a shell-based remote whose run() uses the persistent shell with "
    "the one-shot fallback, as the repo's SSH/container connectors do; the queue-manager command template rendered "
    "by CommandTemplateMap + create_command and executed by sh) and a history of 1..8 commands (12 thorough). A "
    "command is a real helper script that appends its id to a counter file, prints its working directory and the "
    "requested environment variables hex-encoded, then a payload (empty, text with/without trailing newline, "
    "multi-byte unicode, text that looks like the shell's end marker, 0..64 KiB quick / 1 MiB thorough) and exits "
    "with a code 0..255. Environment values and working directories come from a hostile alphabet (quotes, $, "
    "backticks, $(..), backslashes, spaces, newlines, unicode, ;, &&, #, *). Schedule/faults: the virtual duration "
    "of each command against its timeout (so some commands time out), how the shell's output is cut into reads "
    "(1 byte, 7, random, whole; transferBufferSize 16..65536), one or two concurrent callers, the persistent shell "
    "dying before command k. Oracle: every run() that returns has status == exit code, output == the payload the "
    "command printed (after the strip() every variant applies) with the cwd and environment the caller asked for, "
    "and its id exactly once in the counter file; a run() that raises executed at most once; the commands after a "
    "timed-out / failed one are unaffected. non-trivial = a timeout, a shell death, a cut inside the output or a "
    "hostile string was involved; distinct = loop digests"
)
COMPONENTS = {
    "real": ["core.utils.create_command, run_in_shell", "deployment.shell._build_shell_command, BaseShell.execute/_read_with_output/_read_without_output/close",
             "connector.base.BaseConnector.get_shell/_create_shell wiring, SubprocessShell, SubprocessStream*Wrapper", "LocalConnector.run",
             "deployment.template.CommandTemplateMap.get_command", "real /bin/sh executing every command"],
    "stub": ["simproc: process spawn/pipe seam (real children run synchronously; the timing and chunking of what they print is simulated)",
             "SimShellConnector transport (how a process is started on a location); its run() repeats the structure of SSHConnector/ContainerConnector.run"],
}
ASSUMPTIONS = ["every variant strips leading/trailing whitespace of the captured output: outputs are compared after strip()",
               "command arguments themselves are shell words by design (joined with spaces): only environment values and the working directory are required to pass verbatim",
               "a timed-out command is modelled as having produced its side effect once (the real child ran); what is decided by the simulator is when its output arrives"]
TIERS = {"quick": {"runs": 400, "budget_s": 150, "chunk": 4}, "thorough": {"runs": 60000, "budget_s": 480, "chunk": 8, "params": {"big": True}}}
STALL_S = 600   # real child processes: a chunk may need minutes on a loaded machine
SIM_KW = {"max_steps": 2_000_000, "wall_cap": 60.0, "max_vtime": 1e7}

SCRIPT = r"""#!/bin/sh
id=$1; counter=$2; payload=$3; code=$4; shift 4
printf '%s\n' "$id" >> "$counter"
printf 'CWD=%s\n' "$(pwd | od -An -v -tx1 | tr -d ' \n')"
for v in "$@"; do eval "val=\$$v"; printf 'ENV %s=%s\n' "$v" "$(printf '%s' "$val" | od -An -v -tx1 | tr -d ' \n')"; done
cat "$payload"
exit $code
"""

HOSTILE = ["plain", "two words", "it's", 'say "hi"', "$HOME", "${PATH}", "`echo pwned`", "$(echo pwned)", "back\\slash", "trail\\",
           "semi;colon", "a && b", "# not a comment", "*", "~", "tab\there", "new\nline", "ünïcödé ✓", "a=b", "'", '"', "$", "!bang", "%s %d", " lead and trail "]
DIRS = ["plain", "with space", "quo'te", 'dq"uote', "dol$lar", "ünï", "semi;colon", "star*", "paren(1)", "amp&ersand", "back\\slash", "-dash"]


def _cls(s):
    for ch, name in (("\n", "newline"), ("`", "backtick"), ("$(", "cmdsubst"), ("$", "dollar"), ('"', "dquote"), ("'", "squote"), ("\\", "backslash"),
                     (";", "semicolon"), ("&", "amp"), ("#", "hash"), ("*", "glob"), ("~", "tilde"), ("\t", "tab"), (" ", "space"), ("(", "paren"), ("!", "bang"), ("%", "percent")):
        if ch in s:
            return name
    if s.startswith("-"):
        return "leading_dash"
    return "unicode" if any(ord(c) > 127 for c in s) else "plain"


def gen_payload(t, big):
    kind = t.draw(8, "payload.kind")
    if kind == 0:
        return b"", "empty"
    if kind == 1:
        return b"one line\n", "line"
    if kind == 2:
        return b"no trailing newline", "no_newline"
    if kind == 3:
        return ("ünï ✓ 漢字 " * (1 + t.draw(40, "payload.rep"))).encode() + (b"\n" if t.draw(2, "payload.nl") else b""), "unicode"
    if kind == 4:
        return b"SF_CMD_END_fake:0\nreal output follows\nSF_CMD_END_\n", "marker_lookalike"
    if kind == 5:
        n = (1, 511, 512, 4096, 65536 if not big else 1 << 20)[t.draw(5, "payload.size")]
        line = b"0123456789abcdef" * 4
        return (line + b"\n") * (n // 65) + b"x" * (n % 65), "bulk"
    if kind == 6:
        return b"line1\n\n\nline4\r\nwith cr\n", "blank_lines"
    return b"  leading and trailing spaces  \n\n", "whitespace"


def run(sim, params):
    t = sim.tape
    big = params.get("big", False)
    variant = ("local", "shell", "shell", "shell", "template")[t.draw(5, "variant")]
    ncmd = 1 + t.draw(12 if big else 8, "ncmd")
    bufsize = (16, 100, 4096, 65536)[t.draw(4, "bufsize")]
    cutpol = ("all", "all", "1", "7", "random")[t.draw(5, "cut")]
    callers = 1 + (t.draw(3, "callers") == 0) if variant == "shell" else 1
    shell_dies = (None, None, None, 0, 1, 2, 3)[t.draw(7, "shell.dies")] if variant == "shell" else None
    use_shell = True
    cmds = []
    for i in range(ncmd):
        env = {}
        for k in range(t.draw(3, "env.n")):
            env[f"V{k}"] = HOSTILE[t.draw(len(HOSTILE), "env.val")] if t.draw(3, "env.hostile") else f"v{k}"
        wd = None
        if t.draw(3, "wd") == 0:
            wd = DIRS[t.draw(len(DIRS), "wd.name")]
        payload, pk = gen_payload(t, big)
        code = (0, 0, 0, 1, 2, 127, 255)[t.draw(7, "code")]
        timeout = (None, None, 5, 30)[t.draw(4, "timeout")]
        dur = (0, 0, 0, 1, 4, 10, 60)[t.draw(7, "duration")]
        cmds.append({"id": i, "env": env, "wd": wd, "payload": payload, "pk": pk, "code": code, "timeout": timeout, "dur": dur,
                     "capture": t.draw(6, "capture") != 0})
    info = {"variant": variant, "bufsize": bufsize, "cut": cutpol, "callers": callers, "shell_dies_before": shell_dies,
            "cmds": [{k: (v if k != "payload" else len(v)) for k, v in c.items()} for c in cmds]}
    results = {}
    state = {}

    def cut(reader, avail):
        if cutpol == "all":
            return avail
        if reader.delivered > 3000:
            return 4096  # the first KiBs are cut finely (header, marker, multi-byte text); bulk goes faster
        if cutpol == "random":
            return 1 + t.draw(64, "cut.n")
        return int(cutpol)

    sim.info["pipe_cut"] = cut
    durs = {c["id"]: c["dur"] for c in cmds}

    def id_of(text):
        m = re.search(r"cmdid-(\d+)", text)
        return int(m.group(1)) if m else None

    sim.info["shell_cmd_model"] = lambda proc, data, out: {"duration": durs.get(id_of(data.decode("utf-8", "replace")), 0),
                                                           "early_fraction": (0.0, 0.5)[t.draw(2, "early")]}
    sim.info["subprocess_model"] = lambda argv, p: durs.get(id_of(" ".join(argv)), 0)
    if shell_dies is not None:
        sim.info["proc_model"] = lambda proc: {"shell_dies_at_command": shell_dies} if len([p for p in sim.info["procs"] if p.orig_argv[-1:] == ["sh"]]) == 1 else {}

    from streamflow.core import utils as _utils

    shell_exc = {}
    flags = {"timeout_seen": False}
    orig_run_in_shell = _utils.run_in_shell

    async def recording_run_in_shell(shell, location, command, **kw):
        try:
            return await orig_run_in_shell(shell=shell, location=location, command=command, **kw)
        except BaseException as e:
            i = id_of(" ".join(command))
            if i is not None:
                shell_exc[i] = f"{type(e).__name__}: {e}"[:160]
                if "imeout" in shell_exc[i]:
                    flags["timeout_seen"] = True
            raise

    async def main():
        _utils.run_in_shell = recording_run_in_shell
        try:
            await main2()
        finally:
            _utils.run_in_shell = orig_run_in_shell

    async def main2():
        ctx = make_context(sim)
        if variant == "shell":
            cfg = DeploymentConfig(name="rem", type="simshell", config={"locations": ["n0"], "transferBufferSize": bufsize, "use_shell": use_shell},
                                   external=False, lazy=False, workdir=None)
            await ctx.deployment_manager.deploy(cfg)
            conn = ctx.deployment_manager.get_connector("rem")
            loc = conn.location("n0")
            vroot = conn.visible_root("n0")
            rroot = conn.roots["n0"]
        else:
            from streamflow.core.deployment import LocalTarget

            await ctx.deployment_manager.deploy(LocalTarget().deployment)
            conn = ctx.deployment_manager.get_connector("__LOCAL__")
            loc = ExecutionLocation(name="__LOCAL__", deployment="__LOCAL__", local=True)
            vroot = rroot = os.path.join(sim.scratch, "host")
            os.makedirs(rroot, exist_ok=True)
        with open(os.path.join(rroot, "cmd.sh"), "w") as f:
            f.write(SCRIPT)
        counter_v = os.path.join(vroot, "counter")
        state.update(counter=os.path.join(rroot, "counter"), vroot=vroot, rroot=rroot, ctx=ctx)
        for c in cmds:
            with open(os.path.join(rroot, f"payload{c['id']}"), "wb") as f:
                f.write(c["payload"])
            if c["wd"] is not None:
                os.makedirs(os.path.join(rroot, "wd", c["wd"]), exist_ok=True)
        tmpl = CommandTemplateMap(default="#!/bin/sh\n{{streamflow_command}}",
                                  template_map={"svc": "#!/bin/sh\n{{streamflow_environment}}\n{{streamflow_command}}"})

        async def one(c):
            i = c["id"]
            argv = ["sh", os.path.join(vroot, "cmd.sh"), f"cmdid-{i}", counter_v, os.path.join(vroot, f"payload{i}"), str(c["code"])] + list(c["env"])
            wd = os.path.join(vroot, "wd", c["wd"]) if c["wd"] is not None else None
            sim.log("CMD.start", i)
            c["after_timeout"] = flags["timeout_seen"]
            try:
                if variant == "template":
                    from streamflow.core import utils

                    which = t.draw(2, "tmpl.which")
                    if which == 0:
                        script = tmpl.get_command(command=utils.create_command("SlurmConnector", argv, c["env"] or None, wd), template=None)
                    else:
                        script = tmpl.get_command(command=utils.create_command("SlurmConnector", argv, None, wd), template="svc", environment=c["env"] or None, workdir=wd)
                    sp = os.path.join(rroot, f"job{i}.sh")
                    with open(sp, "w") as f:
                        f.write(script)
                    await sim.io("proc", "batch")
                    p = subprocess.run(["sh", sp], stdin=subprocess.DEVNULL, stdout=subprocess.PIPE, stderr=subprocess.STDOUT)
                    res = (p.stdout.decode("utf-8", "replace").strip(), p.returncode)
                else:
                    res = await conn.run(loc, argv, environment=c["env"] or None, workdir=wd, capture_output=c["capture"], timeout=c["timeout"])
                results[i] = ("ok", res)
            except (WorkflowExecutionException, asyncio.TimeoutError, TimeoutError) as e:
                results[i] = ("raised", f"{type(e).__name__}: {e}"[:200])
                if isinstance(e, TimeoutError) or "imeout" in str(e):
                    flags["timeout_seen"] = True
            except Exception as e:
                results[i] = ("crashed", f"{type(e).__name__} at {repo_frame_of(e.__traceback__)}: {e}"[:300])
            sim.log("CMD.end", i, results[i][0])

        if callers == 1:
            for c in cmds:
                await one(c)
        else:
            async def caller(k):
                for c in cmds[k::2]:
                    await one(c)
            await asyncio.gather(*(asyncio.create_task(caller(k), name=f"caller{k}") for k in range(2)))
        # let late output of timed-out commands arrive, then close
        await asyncio.sleep(200)
        await ctx.deployment_manager.undeploy_all()
        await ctx.close()

    sim.run(main())
    # ---- oracle ---------------------------------------------------------------------------------------
    counts = {}
    if os.path.exists(state["counter"]):
        for ln in open(state["counter"]).read().split():
            m = re.match(r"cmdid-(\d+)$", ln)
            if m:
                counts[int(m.group(1))] = counts.get(int(m.group(1)), 0) + 1
    case = f"case={canon(info)[:1800]}"
    any_timeout = False
    hostile_used = False
    for c in cmds:
        i = c["id"]
        st, res = results.get(i, ("missing", None))
        n = counts.get(i, 0)
        sx = shell_exc.get(i)
        timed_out = (sx is not None and "imeout" in sx) or (st == "raised" and ("TimeoutError" in res or "imeout" in res))
        any_timeout |= timed_out
        if timed_out:
            sim.fault("command_timed_out")
        ctxt = "timed_out" if timed_out else ("after_timeout" if c.get("after_timeout") else ("shell_failed" if sx else "plain"))
        wd_cls = _cls(c["wd"]) if c["wd"] is not None else "plain"
        env_bad = sorted({_cls(v) for v in c["env"].values()} - {"plain"})
        hostile_used |= bool(env_bad) or wd_cls != "plain"
        if st == "crashed":
            raise Violation("run_crashed", f"run() of command {i} raised {res}; {case}", signature=f"run_crashed:{res.split(' ')[0]}:{variant}")
        if st == "missing":
            raise Violation("run_missing", f"command {i} never finished; {case}", signature="run_missing")
        if n > 1:
            raise Violation("executed_n_times", f"run() of command {i} {'returned normally' if st == 'ok' else 'raised ' + str(res)} and the command ran {n} times "
                            f"({ctxt}; persistent shell reported: {sx}); {case}", signature=f"executed_n_times:2:{ctxt}:{variant}")
        if st == "ok":
            out, rc = res if res is not None else (None, None)
            seen_cwd, seen_env, body = None, {}, None
            if out is not None:
                lines = out.split("\n")
                k = 0
                # skip shell noise printed before the helper started (e.g. a failing cd)
                while k < len(lines) and not lines[k].startswith("CWD="):
                    k += 1
                if k < len(lines):
                    try:
                        seen_cwd = bytes.fromhex(lines[k][4:]).decode("utf-8", "replace").rstrip("\n")
                    except ValueError:
                        seen_cwd = "<unparsable>"
                    noise = lines[:k]
                    k += 1
                    while k < len(lines) and lines[k].startswith("ENV "):
                        name, _, hx = lines[k][4:].partition("=")
                        try:
                            seen_env[name] = bytes.fromhex(hx).decode("utf-8", "replace")
                        except ValueError:
                            seen_env[name] = "<unparsable>"
                        k += 1
                    body = "\n".join(lines[k:])
                else:
                    noise = lines
            wd_want = os.path.join(state["vroot"], "wd", c["wd"]) if c["wd"] is not None else None
            # -- verbatim working directory / environment (checked first: they explain most other symptoms) --
            if wd_want is not None and wd_cls != "plain" and (n == 0 or (seen_cwd is not None and seen_cwd != wd_want) or (out is not None and seen_cwd is None)):
                raise Violation("workdir_not_verbatim", f"command {i} asked for workdir {wd_want!r}: it ran {n} times, in {seen_cwd!r} (status {rc}, output {str(out)[:200]!r}); {case}",
                                signature=f"workdir_not_verbatim:{wd_cls}:{variant}")
            if env_bad and (n == 0 or (out is not None and (seen_cwd is None or any(seen_env.get(k2) != v for k2, v in c["env"].items())))):
                bad = next((k2 for k2, v in c["env"].items() if seen_env.get(k2) != v), None)
                raise Violation("env_not_verbatim", f"command {i}: environment {c['env']!r} reached the command as {seen_env!r} (ran {n} times, status {rc}, output {str(out)[:200]!r}); {case}",
                                signature=f"env_not_verbatim:{_cls(c['env'][bad]) if bad else env_bad[0]}:{variant}")
            if n != 1:
                raise Violation("executed_n_times", f"run() of command {i} returned normally ({str(res)[:200]}) but the command ran {n} times ({ctxt}; persistent shell reported: {sx}); {case}",
                                signature=f"executed_n_times:0:{ctxt}:{variant}")
            if out is None:
                if c["capture"] or variant == "template":
                    raise Violation("wrong_output", f"capture_output=True returned None for command {i}; {case}", signature="wrong_output:none")
                continue
            if not c["capture"] and variant != "template":
                raise Violation("wrong_output", f"capture_output=False returned {res!r}; {case}", signature="wrong_output:not_captured")
            want_body = c["payload"].decode("utf-8", "replace")
            if seen_cwd is None or noise or body.strip() != want_body.strip():
                raise Violation("wrong_output", f"command {i} ({ctxt}, payload {c['pk']}): run() returned status {rc} (want {c['code']}) and output {out[:400]!r}... "
                                f"expected body {want_body[:120]!r}; {case}", signature=f"wrong_output:{ctxt}:{c['pk'] if ctxt == 'plain' else 'any'}:{variant}")
            if rc != c["code"]:
                raise Violation("wrong_status", f"command {i} exited {c['code']} but run() returned status {rc} ({ctxt}); {case}", signature=f"wrong_status:{ctxt}:{variant}")
            if wd_want is not None and seen_cwd != wd_want:
                raise Violation("workdir_not_verbatim", f"command {i} asked for workdir {wd_want!r} but ran in {seen_cwd!r}; {case}",
                                signature=f"workdir_not_verbatim:{wd_cls}:{variant}")
            for name, val in c["env"].items():
                if seen_env.get(name) != val:
                    raise Violation("env_not_verbatim", f"command {i}: environment {name}={val!r} reached the command as {seen_env.get(name)!r}; {case}",
                                    signature=f"env_not_verbatim:{_cls(val)}:{variant}")
        else:  # raised
            legit = timed_out and c["timeout"] is not None
            if not legit:
                raise Violation("run_raised", f"run() of command {i} raised {res} ({ctxt}; timeout={c['timeout']}); {case}", signature=f"run_raised:{ctxt}:{variant}")
    nontrivial = any_timeout or hostile_used or cutpol != "all" or shell_dies is not None
    return {"nontrivial": nontrivial, "sample": info}
