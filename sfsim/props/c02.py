"""C02 — combinators emit exactly the right combinations, whatever the arrival order."""
from __future__ import annotations

import itertools
import math

from ..core import Violation
from ..tape import Tape
from ..harness import engine as H
from ..harness.engine import canon, make_context

from streamflow.core.exception import WorkflowExecutionException
from streamflow.core.workflow import Token, Workflow
from streamflow.workflow.combinator import CartesianProductCombinator, DotProductCombinator
from streamflow.workflow.executor import StreamFlowExecutor
from streamflow.workflow.step import CombinatorStep
from streamflow.workflow.token import TerminationToken

ID = "C02"
LEVEL = "exploration"
RULE = (
    "each run draws a combinator tree (dot, cartesian, dot-of-cartesian, dot-of-dot, cartesian-with-inner) over "
    "2..4 ports, 0..4 uniquely-valued tokens per port with prefix-consistent tags of depth 1..3, then delivers "
    "the tokens in a seed-chosen global arrival permutation (with seed-chosen back-to-back bursts so several "
    "input tasks complete in one loop iteration) and once more in the canonical order; for shapes with <= 5 "
    "tokens every arrival permutation is enumerated (cases with enum=perm). Oracle: multiset of emitted "
    "(tag,{port:value}) equals the sequential reference evaluator and is equal between the two orders. "
    "non-trivial = at least 2 data tokens delivered in a non-canonical order; distinct = distinct (shape, order) digests"
)
COMPONENTS = {
    "real": ["CombinatorStep.run", "DotProductCombinator", "CartesianProductCombinator", "Combinator._add_to_list",
             "Port", "StreamFlowExecutor", "SqliteDatabase", "get_tag"],
    "stub": ["aiosqlite worker thread -> FIFO server", "token producer (harness task putting tokens in seeded order)"],
}
ASSUMPTIONS = [
    "ready queue FIFO; arrival order, bursts, DB latencies and task identity order are seed-chosen",
    "tags are prefix-consistent and each port carries tags of a single depth (what upstream scatter/loop steps emit)",
    "cartesian-product combinators are exercised with depth=1 (the only value the translator ever passes)",
]
TIERS = {
    "quick": {"runs": 3000, "budget_s": 50},
    "thorough": {"runs": 150000, "budget_s": 420},
}
SIM_KW = {"max_steps": 200_000, "wall_cap": 60.0}

SHAPES = ("dot", "cart", "dot_of_cart", "dot_of_dot", "cart_inner")
ENUM_SHAPES_QUICK = 10
ENUM_SHAPES_THOROUGH = 60


def cases(tier):
    out = []
    n = ENUM_SHAPES_QUICK if tier == "quick" else ENUM_SHAPES_THOROUGH
    for s in range(n):
        shape_seed = 1000 + s
        toks = _gen_shape(Tape(seed=shape_seed), small=True)["tokens"]
        ntok = sum(len(v) for v in toks.values())
        for k in range(math.factorial(ntok)):
            out.append({"enum": "perm", "shape_seed": shape_seed, "perm": k})
    return out


# ---- generation ----------------------------------------------------------------------------

def _gen_shape(t, small=False):
    kind = SHAPES[t.draw(len(SHAPES) if not small else 4, "shape")]
    if kind == "dot":
        ports = ["A", "B", "C", "D"][: 2 + t.draw(2 if small else 3, "nports")]
        tree = ("dot", ports)
    elif kind == "cart":
        ports = ["A", "B", "C"][: 2 + t.draw(1 if small else 2, "nports")]
        tree = ("cart", ports)
    elif kind == "dot_of_cart":
        ports = ["A", "B", "C"]
        tree = ("dot", [("cart", ["A", "B"]), "C"])
    elif kind == "dot_of_dot":
        ports = ["A", "B", "C"]
        tree = ("dot", [("dot", ["A", "B"]), "C"])
    else:
        ports = ["A", "B", "C"]
        tree = ("cart", [("dot", ["A", "B"]), "C"])
    prefix = ("0", "0.2", "0.1.3")[t.draw(3, "prefix")]
    tokens = {}
    maxn = 2 if small else 4

    def sibs(pfx, n, start=0):
        # start==9 crosses the one-digit/two-digit boundary; start==-1 picks a sparse index set in
        # which one index is a *string* prefix of others (1 vs 10, 11, 100)
        if start == -1:
            return [f"{pfx}.{i}" for i in (1, 10, 11, 2, 100)[:n]]
        return [f"{pfx}.{start + i}" for i in range(n)]

    if kind in ("dot", "dot_of_dot"):
        # scattered ports carry tags prefix.i (i may be >= 10); some ports are non-scattered
        # (tag == prefix, broadcast), possibly one deeper port prefix.i.j
        n = t.draw(maxn + 1, "n")
        start = (0, 9, -1)[t.draw(3, "start")]
        base = sibs(prefix, n, start)
        for p in ports:
            mode = t.draw(4, f"mode.{p}")
            if mode <= 1:
                drop = t.draw(3, f"drop.{p}")  # a port may miss some tags
                tags = [x for i, x in enumerate(base) if not (drop == 2 and i == len(base) - 1)]
            elif mode == 2:
                tags = [prefix] if t.draw(4, f"empty.{p}") else []
            else:
                tags = [f"{b}.{j}" for b in base[:2] for j in range(1 + t.draw(2, f"deep.{p}"))]
            tokens[p] = [(tag, f"{p}@{tag}") for tag in tags]
    elif kind == "cart":
        prefixes = [prefix] if t.draw(2, "two.prefixes") == 0 or prefix == "0" else [prefix, prefix[:-1] + str(int(prefix[-1]) + 1)]
        for p in ports:
            tags = []
            for pf in prefixes:
                tags += sibs(pf, t.draw(maxn + 1, f"n.{p}"), (0, 9, -1)[t.draw(3, f"start.{p}")])
            tokens[p] = [(tag, f"{p}@{tag}") for tag in tags]
    else:  # dot_of_cart / cart_inner
        for p in ("A", "B"):
            tokens[p] = [(tag, f"{p}@{tag}") for tag in sibs(prefix, t.draw(maxn + 1, f"n.{p}"), (0, -1)[t.draw(2, f"start.{p}")])]
        if kind == "dot_of_cart":
            mode = t.draw(3, "mode.C")
            ctags = [prefix] if mode < 2 else []
            if mode == 1 and prefix != "0":
                ctags = [prefix.rsplit(".", 1)[0]]
        else:
            ctags = sibs(prefix, t.draw(maxn + 1, "n.C"))
        tokens["C"] = [(tag, f"C@{tag}") for tag in ctags]
    if small:
        # keep the permutation space enumerable
        total = sum(len(v) for v in tokens.values())
        while total > 5:
            p = max(tokens, key=lambda q: len(tokens[q]))
            tokens[p].pop()
            total -= 1
    return {"kind": kind, "tree": tree, "ports": ports, "tokens": tokens}


# ---- reference evaluator -------------------------------------------------------------------

def _is_prefix(a, b):
    la, lb = a.split("."), b.split(".")
    return lb[: len(la)] == la


def ref_eval(node, tokens):
    """[(tag, {port: value})] — sequential model written from the property statement."""
    if isinstance(node, str):
        return [(tag, {node: val}) for tag, val in tokens[node]]
    kind, children = node
    lists = [ref_eval(c, tokens) for c in children]
    out = []
    if kind == "dot":
        alltags = {t for lst in lists for t, _ in lst}
        maxdepth = max((len(t.split(".")) for t in alltags), default=0)
        for tag in alltags:
            if len(tag.split(".")) != maxdepth:
                continue
            merged = {}
            for lst in lists:
                cands = [(t, d) for t, d in lst if _is_prefix(t, tag)]
                if not cands:
                    break
                t, d = max(cands, key=lambda c: len(c[0].split(".")))
                merged |= d
            else:
                out.append((tag, merged))
        return out
    # cartesian product, depth 1, children are ports
    groups = {}
    for i, lst in enumerate(lists):
        for t, d in lst:
            groups.setdefault(t.rsplit(".", 1)[0], [[] for _ in lists])[i].append((t, d))
    for pfx, per_child in groups.items():
        if any(not x for x in per_child):
            continue
        for combo in itertools.product(*per_child):
            tag = pfx + "." + ".".join(t.rsplit(".", 1)[1] for t, _ in combo)
            merged = {}
            for _, d in combo:
                merged |= d
            out.append((tag, merged))
    return out


# ---- execution ---------------------------------------------------------------------------------

def _build_combinator(node, wf, name="c"):
    kind, children = node
    comb = (DotProductCombinator if kind == "dot" else CartesianProductCombinator)(name=name, workflow=wf)
    for i, c in enumerate(children):
        if isinstance(c, str):
            comb.add_item(c)
        else:
            inner = _build_combinator(c, wf, f"{name}.{i}")
            comb.add_combinator(inner, inner.get_items(recursive=True))
    return comb


def _nth_permutation(seq, k):
    seq = list(seq)
    out = []
    for i in range(len(seq), 0, -1):
        f = math.factorial(i - 1)
        out.append(seq.pop(k // f))
        k %= f
    return out


async def _execute(sim, shape, order, bursts, tag):
    ctx = make_context(sim)
    wf = Workflow(context=ctx, name=f"w{tag}", config={})
    comb = _build_combinator(shape["tree"], wf)
    st = wf.create_step(CombinatorStep, name="/comb", combinator=comb)
    inp, outp = {}, {}
    for p in shape["ports"]:
        inp[p] = wf.create_port()
        outp[p] = wf.create_port()
        st.add_input_port(p, inp[p])
        st.add_output_port(p, outp[p])
        wf.output_ports[p] = outp[p].name
    await wf.save(ctx.database)
    toks = {}
    for p, lst in shape["tokens"].items():
        for tg, val in lst:
            tk = Token(val, tag=tg)
            await tk.save(ctx.database, port_id=inp[p].persistent_id)
            toks[(p, tg)] = tk
    remaining = {p: len(lst) for p, lst in shape["tokens"].items()}

    async def producer():
        for p in shape["ports"]:
            if remaining[p] == 0:
                inp[p].put(TerminationToken())
        for i, (p, tg) in enumerate(order):
            if not bursts[i]:
                await sim.io("put", p)
            inp[p].put(toks[(p, tg)])
            remaining[p] -= 1
            if remaining[p] == 0:
                inp[p].put(TerminationToken())

    import asyncio

    prod = asyncio.create_task(producer(), name="producer")
    failed = None
    try:
        await StreamFlowExecutor(wf).run()
    except WorkflowExecutionException as e:
        failed = e
    await prod
    return ctx, outp, failed


def _collect(shape, outp):
    per_port = {}
    for p, port in outp.items():
        tl = port.token_list
        if not tl or not isinstance(tl[-1], TerminationToken):
            raise Violation("no_termination", f"output port {p} does not end with a termination token: {H.port_contents(port)}")
        data = tl[:-1]
        if any(isinstance(x, TerminationToken) for x in data):
            raise Violation("early_termination", f"termination before the end on {p}")
        per_port[p] = [(x.tag, x.value) for x in data]
    lens = {len(v) for v in per_port.values()}
    if len(lens) != 1:
        raise Violation("ragged_outputs", f"output ports received different numbers of tokens: { {p: len(v) for p, v in per_port.items()} }")
    combos = []
    for row in zip(*[per_port[p] for p in shape["ports"]]):
        tags = {t for t, _ in row}
        if len(tags) != 1:
            raise Violation("mixed_tags", f"one combination carries different tags: {row}")
        combos.append((row[0][0], {p: v for p, (_, v) in zip(shape["ports"], row)}))
    return combos


def _ms(combos):
    return sorted(canon(c) for c in combos)


def run(sim, params):
    t = sim.tape
    if "shape_seed" in params:
        shape = _gen_shape(Tape(seed=params["shape_seed"]), small=True)
    else:
        shape = _gen_shape(t)
    all_tokens = [(p, tg) for p in shape["ports"] for tg, _ in shape["tokens"][p]]
    canonical = list(all_tokens)
    if "perm" in params:
        order = _nth_permutation(all_tokens, params["perm"])
    else:
        order = t.shuffle(all_tokens, "order")
    bursts = [t.draw(3, "burst") == 2 for _ in order]
    expected = _ms(ref_eval(shape["tree"], shape["tokens"]))
    info = {"tree": shape["tree"], "tokens": shape["tokens"], "order": order, "bursts": bursts}
    results = []
    for which, (o, b) in enumerate(((order, bursts), (canonical, [False] * len(canonical)))):
        sim.errors.clear()
        ctx, outp, failed = sim.run(_execute(sim, shape, o, b, which))
        sim.drain()
        if failed is not None:
            errs = list(sim.errors)
            crash = next((e for e in errs if e[0] not in (None, "WorkflowExecutionException")), None)
            if shape["kind"] == "cart_inner" and crash and crash[0] == "AttributeError" and crash[1] and crash[1].startswith("workflow/combinator.py:"):
                raise Violation("crash", f"cartesian-product combinator with an inner combinator crashes: {crash}; case={canon(info)[:700]}",
                                signature="cartesian_with_inner_combinator:AttributeError")
            raise Violation("run_failed", f"executor raised without injected fault: errors={errs[:3]}; case={canon(info)[:700]}",
                            signature=f"run_failed:{crash[0] if crash else None}:{crash[1] if crash else None}")
        got = _ms(_collect(shape, outp))
        results.append(got)
        if shape["kind"] != "cart_inner" and got != expected:
            missing = [x for x in expected if x not in got]
            extra = [x for x in got if x not in expected]
            raise Violation(
                "wrong_combinations",
                f"order#{which}: missing={missing[:4]} extra={extra[:4]} (expected {len(expected)}, got {len(got)}); case={canon(info)[:900]}",
            )
        sim.run(ctx.close())
    if results[0] != results[1]:
        raise Violation("order_dependent", f"emitted combinations differ between arrival orders; case={canon(info)[:900]}")
    nontrivial = order != canonical and len(order) >= 2
    if nontrivial:
        sim.probe("noncanonical_order")
    if any(bursts):
        sim.probe("burst_delivery")
    if expected:
        sim.probe("nonempty_expected")
    return {
        "nontrivial": nontrivial,
        "sig": __import__("zlib").crc32(canon([shape["tree"], shape["tokens"], order, bursts]).encode()),
        "sample": {"tree": shape["tree"], "tokens": {p: [tg for tg, _ in v] for p, v in shape["tokens"].items()},
                   "order": order, "expected_combinations": len(expected)},
    }
