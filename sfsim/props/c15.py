"""C15 — each scheduled job gets its own existing working directories."""
from __future__ import annotations

import os

from ..core import Violation
from ..harness import recshapes as S
from ..harness import recovery as R
from ..harness.engine import canon
from . import c16 as _c16

from streamflow.workflow.step import ScheduleStep
from streamflow.workflow.token import JobToken

ID = "C15"
LEVEL = "exploration"
RULE = (
    "two modes. Remote (1/3 of the runs): 1..2 ScheduleSteps with 1..8 jobs each on a shell-based remote deployment "
    "with 2..3 locations (SimShellConnector: real sh per location in a private mount namespace), every job allocated "
    "on 1..L locations, optionally fixed directories for one step (a separate tree, or the target working directory "
    "itself, i.e. an ancestor of the other jobs' directories, as the CWL translator binds its injector/collector "
    "steps), the steps fed at seed-chosen instants, optionally the k-th mkdir on a non-first location fails; wipe family "
    "(enumerated_cases): two steps share the fixed directories, which vanish from every node (fault "
    "fixed_directories_wiped) once the first step's jobs have their tokens, before the second step is fed. Local: scatter/gather workflows with 2..16 concurrent jobs per step (plus pipelines and diamonds) on the real "
    "LocalConnector with per-run scratch work directories; optionally the binding fixes the input/output/tmp "
    "directory of one step (separate tree or the working directory itself); optional schedule-phase failures (directory creation fails) recovered by the rollback "
    "manager; seeded latencies for every database, scheduler and filesystem step. Oracle evaluated at the instant "
    "every JobToken is put on a job port (port observer): the three directories exist on the allocated location, "
    "the data manager reports each as registered and available there, and they differ from the directories of "
    "every other job unless the binding fixed them. non-trivial = at least 4 jobs of one step were scheduled "
    "concurrently; distinct = loop digests"
)
COMPONENTS = {
    "real": ["ScheduleStep._schedule/_set_job_directories", "DefaultScheduler", "DefaultDataManager.register_path/get_data_locations",
             "LocalStreamFlowPath.mkdir/resolve (real filesystem)", "RemoteStreamFlowPath.mkdir/resolve over the persistent shell", "LocalConnector", "RollbackFailureManager (for failed directory creation)"],
    "stub": ["SimCommand/SimTransferStep/SimOutputProcessor (harness job bodies)", "aiosqlite thread -> FIFO server"],
}
ASSUMPTIONS = ["the remote mode schedules jobs without executing them (ScheduleStep + DeployStep only): the statement is about what a scheduled job receives"]
TIERS = {"quick": {"runs": 500, "budget_s": 55, "chunk": 4}, "thorough": {"runs": 30000, "budget_s": 480, "chunk": 8}}
STALL_S = 600   # real child processes: a chunk may need minutes on a loaded machine
SIM_KW = _c16.SIM_KW


def run_remote(sim, params):
    """Shell-based remote deployment with several locations; jobs allocated on 1..L locations each."""
    import asyncio

    from ..harness import shellconn  # noqa: F401
    from ..harness.engine import make_context
    from streamflow.core.config import BindingConfig
    from streamflow.core.deployment import DeploymentConfig, Target
    from streamflow.core.exception import WorkflowExecutionException
    from streamflow.core.workflow import Token, Workflow
    from streamflow.workflow.executor import StreamFlowExecutor
    from streamflow.workflow.step import DeployStep
    from streamflow.workflow.token import TerminationToken

    t = sim.tape
    nloc = 2 + t.draw(2, "remote.nloc")
    per_job = 1 + t.draw(nloc, "remote.locations_per_job")
    nsteps = 1 + t.draw(2, "remote.nsteps")
    njobs = (1, 2, 3, 5, 8)[t.draw(5, "remote.njobs")]
    fixed_step = t.draw(nsteps + 2, "remote.fixed")  # index of the step whose dirs are fixed, or none
    fault_at = (None, None, None, 1, 2, 4, 7)[t.draw(7, "remote.mkdir.fault")]
    # the binding fixes the directories either to a separate tree or to the target's working directory itself (what the
    # CWL translator does for its injector/collector schedule steps): an ancestor of every other job's directories
    fixed_is_workdir = bool(t.draw(2, "remote.fixed.workdir"))
    # wipe family: two steps share the same binding-fixed directories; when every job of the first step has its token the
    # fixed tree vanishes from every node (reboot, tmp cleaner, recreated container); the second step is fed afterwards and
    # must find its directories created again
    wipe = params.get("family") == "wipe"
    if wipe:
        nsteps, fixed_is_workdir, fault_at = 2, False, None
    info = {"mode": "remote", "fixed_is_workdir": fixed_is_workdir, "locations": nloc, "locations_per_job": per_job, "steps": nsteps, "jobs": njobs,
            "fixed_step": fixed_step if fixed_step < nsteps else None, "mkdir_fails_at": fault_at}
    problems = []
    seen = {}
    counters = {"tokens": 0, "mkdir": 0, "fault_fired": False}
    state_wipe = {}

    async def main():
        ctx = make_context(sim)
        wf = Workflow(context=ctx, name="w", config={})
        names = [f"n{i}" for i in range(nloc)]
        cfg = DeploymentConfig(name="rem", type="simshell", config={"locations": names, "cores": 64.0, "memory": 65536.0}, external=False, lazy=False, workdir=None)
        await ctx.deployment_manager.deploy(cfg)
        conn = ctx.deployment_manager.get_connector("rem")
        vroot = conn.visible_root("n0")
        workdir = os.path.join(vroot, "wd")
        # fault: the k-th mkdir on a location other than the first fails once
        orig_run = conn.run

        async def run(location, command, **kw):
            if command and command[0] == "mkdir" and location.name != "n0":
                counters["mkdir"] += 1
                if fault_at is not None and counters["mkdir"] == fault_at:
                    counters["fault_fired"] = True
                    sim.fault("remote_mkdir_fails")
                    await sim.io("run", location.name)
                    return ("mkdir: cannot create directory: No space left on device", 1) if kw.get("capture_output") else None
            return await orig_run(location, command, **kw)

        conn.run = run
        deploy = wf.create_step(DeployStep, name="/__deploy__/rem", deployment_config=cfg)
        ports = []
        for si in range(nsteps):
            binding = BindingConfig(targets=[Target(deployment=cfg, locations=per_job, workdir=workdir)])
            kw = {}
            is_fixed = si == fixed_step or wipe
            if is_fixed and fixed_is_workdir:
                kw = {"input_directory": workdir, "output_directory": workdir, "tmp_directory": workdir}
            elif is_fixed:
                kw = {"input_directory": os.path.join(vroot, "fixed", "in"), "output_directory": os.path.join(vroot, "fixed", "out"),
                      "tmp_directory": os.path.join(vroot, "fixed", "tmp")}
            st = wf.create_step(ScheduleStep, name=f"/S{si}/__schedule__", job_prefix=f"/S{si}", connector_ports={"rem": deploy.get_output_port()},
                                binding_config=binding, **kw)
            p = wf.create_port()
            st.add_input_port("x", p)
            ports.append(p)
            _hook(st.get_output_port(), ctx, conn, is_fixed)
        await wf.save(ctx.database)
        async def feed(si, p):
            # the steps receive their inputs at seed-chosen instants: which step schedules first is part of the schedule
            await sim.io("feed", f"S{si}")
            if wipe and si == 1:
                await first_done.wait()
                import shutil

                for n in names:
                    shutil.rmtree(os.path.join(conn.roots[n], "fixed"), ignore_errors=True)
                sim.fault("fixed_directories_wiped")
            for i in range(njobs):
                p.put(Token(value=i, tag=f"0.{i}"))
            p.put(TerminationToken())

        first_done = asyncio.Event()
        state_wipe["event"] = first_done
        feeders = [asyncio.create_task(feed(si, p), name=f"feed{si}") for si, p in enumerate(ports)]
        try:
            await StreamFlowExecutor(wf).run()
            await asyncio.gather(*feeders)
            return "ok"
        except WorkflowExecutionException:
            return "raised"
        finally:
            await ctx.deployment_manager.undeploy_all()
            await ctx.close()

    def _hook(port, ctx, conn, is_fixed):
        orig = port.put

        def put(token):
            if isinstance(token, JobToken):
                job = token.value
                counters["tokens"] += 1
                if wipe and job.name.startswith("/S0/"):
                    counters["s0"] = counters.get("s0", 0) + 1
                    if counters["s0"] == njobs and "event" in state_wipe:
                        state_wipe["event"].set()
                locs = ctx.scheduler.get_locations(job.name)
                if len(locs) != per_job:
                    problems.append(("wrong_allocation", f"job {job.name} allocated on {len(locs)} locations instead of {per_job}"))
                for d, what in ((job.input_directory, "input"), (job.output_directory, "output"), (job.tmp_directory, "tmp")):
                    for loc in locs:
                        if not d or not os.path.isdir(conn.real_path(loc.name, d)):
                            problems.append(("missing_directory", f"job {job.name}: {what} directory {d!r} does not exist on location {loc.name} when the job token is emitted"
                                             f"{' (a mkdir failed there)' if counters['fault_fired'] else ''}"))
                            continue
                        dl = ctx.data_manager.get_data_locations(d, loc.deployment, loc.name)
                        if not dl:
                            problems.append(("not_registered", f"job {job.name}: {what} directory {d} is not registered on location {loc.name}"))
                        elif not all(x.available.is_set() for x in dl):
                            problems.append(("not_available", f"job {job.name}: {what} directory {d} registered but not available on {loc.name}"))
                    if not is_fixed:
                        other = seen.get(d)
                        if other is not None and other != job.name:
                            problems.append(("shared_directory", f"jobs {other} and {job.name} share the {what} directory {d}"))
                        seen[d] = job.name
            return orig(token)

        port.put = put

    status = sim.run(main())
    d = f"case={canon(info)}"
    if problems:
        k, msg = problems[0]
        raise Violation(k, f"{msg}; {d}", signature=f"{k}:remote")
    if status == "raised" and not counters["fault_fired"]:
        raise Violation("run_failed", f"scheduling failed without any fault: {sim.errors[-2:]}; {d}", signature="run_failed:remote")
    if status == "ok" and counters["tokens"] != nsteps * njobs:
        raise Violation("jobs_missing", f"{counters['tokens']} job tokens emitted for {nsteps * njobs} jobs although the run completed; {d}", signature="jobs_missing:remote")
    sim.probe("job_tokens_checked", counters["tokens"])
    sim.probe("remote_mode")
    return {"nontrivial": per_job > 1 or njobs >= 4, "sample": info}


def cases(tier):
    return [{"family": "wipe"} for _ in range(60 if tier == "quick" else 3000)]


def run(sim, params):
    t = sim.tape
    if params.get("family") == "wipe":
        return run_remote(sim, params)
    if t.draw(3, "mode.remote") == 0:
        return run_remote(sim, params)
    kind = ("sg", "sg", "sg2", "pipe", "diamond")[t.draw(5, "shape")]
    if kind in ("sg", "sg2"):
        shape = {"kind": kind, "n": (2, 3, 4, 8, 11, 16)[t.draw(6, "n")], "m": 1 + t.draw(2, "m")}
    elif kind == "pipe":
        shape = {"kind": "pipe", "k": 1 + t.draw(4, "k")}
    else:
        shape = {"kind": "diamond"}
    fixed_step = None
    fixed_is_workdir = False
    if t.draw(3, "fixed.dirs") == 2:
        fixed_step = ("/B0", "/A0", "/A")[t.draw(3, "fixed.which")]
        fixed_is_workdir = bool(t.draw(2, "fixed.workdir"))
    faults = {}
    if t.draw(3, "mkdir.fault") == 2:
        jobs = sorted(S.jobs_of(shape))
        j = jobs[t.draw(len(jobs), "fault.job")]
        faults[("schedule", j)] = [{"kind": "soft", "lose": []}] * (1 + t.draw(2, "fault.count"))
    seen = {}     # directory -> job
    checked = [0]
    problems = []

    def observe(sim_, ctx, wf):
        fixed = {}
        for st in wf.steps.values():
            if isinstance(st, ScheduleStep):
                if fixed_step and st.job_prefix == fixed_step:
                    base = os.path.join(sim.scratch, "fixed")
                    if fixed_is_workdir:
                        # the target's working directory itself: an ancestor of the other jobs' directories
                        st.input_directory = st.output_directory = st.tmp_directory = os.path.join(sim.scratch, "wd")
                    else:
                        st.input_directory = os.path.join(base, "in")
                        st.output_directory = os.path.join(base, "out")
                        st.tmp_directory = os.path.join(base, "tmp")
                    fixed[st.job_prefix] = True
                port = st.get_output_port()
                _hook(port, ctx, fixed.get(st.job_prefix, False))

    def _hook(port, ctx, is_fixed):
        orig = port.put

        def put(token):
            if isinstance(token, JobToken):
                job = token.value
                checked[0] += 1
                locs = ctx.scheduler.get_locations(job.name)
                for d, what in ((job.input_directory, "input"), (job.output_directory, "output"), (job.tmp_directory, "tmp")):
                    if not d or not os.path.isdir(d):
                        problems.append(("missing_directory", f"job {job.name}: {what} directory {d!r} does not exist when the job token is emitted"))
                        continue
                    for loc in locs:
                        dl = ctx.data_manager.get_data_locations(d, loc.deployment, loc.name)
                        if not dl:
                            problems.append(("not_registered", f"job {job.name}: {what} directory {d} is not registered on {loc.name}"))
                        elif not all(x.available.is_set() for x in dl):
                            problems.append(("not_available", f"job {job.name}: {what} directory {d} registered but not available on {loc.name}"))
                    if not is_fixed:
                        other = seen.get(d)
                        if other is not None and other != job.name:
                            problems.append(("shared_directory", f"jobs {other} and {job.name} share the {what} directory {d}"))
                        seen[d] = job.name
            return orig(token)

        port.put = put

    res = S.execute(sim, shape, faults, max_retries=8, check_dirs=observe)
    d = S.desc(shape, faults) + f" fixed={fixed_step}{' (the target workdir)' if fixed_is_workdir else ''}"
    if problems:
        k, msg = problems[0]
        raise Violation(k, f"{msg}; {d}", signature=k)
    if res.status == "deadlock":
        raise Violation("deadlock", f"run never completed; {d}", signature="deadlock")
    if res.status == "raised":
        raise Violation("run_failed", f"executor raised: {sim.errors[-2:]}; {d}", signature=f"run_failed:{sim.errors[-1][:2] if sim.errors else None}")
    if fixed_step is None or shape["kind"] == "pipe":
        _c16.check_result(sim, res, shape, faults)
    sim.run(res.ctx.close())
    sim.probe("job_tokens_checked", checked[0])
    return {"nontrivial": shape.get("n", 1) >= 4, "sample": {"shape": shape, "fixed": fixed_step, "faults": [f"{p}:{j}" for p, j in faults], "job_tokens": checked[0]}}
