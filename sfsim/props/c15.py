"""C15 — each scheduled job gets its own existing working directories."""
from __future__ import annotations

import os

from ..core import Violation
from ..harness import recshapes as S
from ..harness import recovery as R
from ..harness.engine import canon
from . import c16 as _c16

from streamflow.workflow.step import ScheduleStep
from streamflow.workflow.token import JobToken

ID = "C15"
LEVEL = "exploration"
RULE = (
    "scatter/gather workflows with 2..16 concurrent jobs per step (plus pipelines and diamonds) on the real "
    "LocalConnector with per-run scratch work directories; optionally the binding fixes the input/output/tmp "
    "directory of one step; optional schedule-phase failures (directory creation fails) recovered by the rollback "
    "manager; seeded latencies for every database, scheduler and filesystem step. Oracle evaluated at the instant "
    "every JobToken is put on a job port (port observer): the three directories exist on the allocated location, "
    "the data manager reports each as registered and available there, and they differ from the directories of "
    "every other job unless the binding fixed them. non-trivial = at least 4 jobs of one step were scheduled "
    "concurrently; distinct = loop digests"
)
COMPONENTS = {
    "real": ["ScheduleStep._schedule/_set_job_directories", "DefaultScheduler", "DefaultDataManager.register_path/get_data_locations",
             "LocalStreamFlowPath.mkdir/resolve (real filesystem)", "LocalConnector", "RollbackFailureManager (for failed directory creation)"],
    "stub": ["SimCommand/SimTransferStep/SimOutputProcessor (harness job bodies)", "aiosqlite thread -> FIFO server"],
}
ASSUMPTIONS = ["local locations only in this check; the shell-based remote location is exercised by C22/C24/C25 (directory creation there goes through the same StreamFlowPath API)"]
TIERS = {"quick": {"runs": 500, "budget_s": 55}, "thorough": {"runs": 30000, "budget_s": 480}}
SIM_KW = _c16.SIM_KW


def run(sim, params):
    t = sim.tape
    kind = ("sg", "sg", "sg2", "pipe", "diamond")[t.draw(5, "shape")]
    if kind in ("sg", "sg2"):
        shape = {"kind": kind, "n": (2, 3, 4, 8, 11, 16)[t.draw(6, "n")], "m": 1 + t.draw(2, "m")}
    elif kind == "pipe":
        shape = {"kind": "pipe", "k": 1 + t.draw(4, "k")}
    else:
        shape = {"kind": "diamond"}
    fixed_step = None
    if t.draw(3, "fixed.dirs") == 2:
        fixed_step = ("/B0", "/A0", "/A")[t.draw(3, "fixed.which")]
    faults = {}
    if t.draw(3, "mkdir.fault") == 2:
        jobs = sorted(S.jobs_of(shape))
        j = jobs[t.draw(len(jobs), "fault.job")]
        faults[("schedule", j)] = [{"kind": "soft", "lose": []}] * (1 + t.draw(2, "fault.count"))
    seen = {}     # directory -> job
    checked = [0]
    problems = []

    def observe(sim_, ctx, wf):
        fixed = {}
        for st in wf.steps.values():
            if isinstance(st, ScheduleStep):
                if fixed_step and st.job_prefix == fixed_step:
                    base = os.path.join(sim.scratch, "fixed")
                    st.input_directory = os.path.join(base, "in")
                    st.output_directory = os.path.join(base, "out")
                    st.tmp_directory = os.path.join(base, "tmp")
                    fixed[st.job_prefix] = True
                port = st.get_output_port()
                _hook(port, ctx, fixed.get(st.job_prefix, False))

    def _hook(port, ctx, is_fixed):
        orig = port.put

        def put(token):
            if isinstance(token, JobToken):
                job = token.value
                checked[0] += 1
                locs = ctx.scheduler.get_locations(job.name)
                for d, what in ((job.input_directory, "input"), (job.output_directory, "output"), (job.tmp_directory, "tmp")):
                    if not d or not os.path.isdir(d):
                        problems.append(("missing_directory", f"job {job.name}: {what} directory {d!r} does not exist when the job token is emitted"))
                        continue
                    for loc in locs:
                        dl = ctx.data_manager.get_data_locations(d, loc.deployment, loc.name)
                        if not dl:
                            problems.append(("not_registered", f"job {job.name}: {what} directory {d} is not registered on {loc.name}"))
                        elif not all(x.available.is_set() for x in dl):
                            problems.append(("not_available", f"job {job.name}: {what} directory {d} registered but not available on {loc.name}"))
                    if not is_fixed:
                        other = seen.get(d)
                        if other is not None and other != job.name:
                            problems.append(("shared_directory", f"jobs {other} and {job.name} share the {what} directory {d}"))
                        seen[d] = job.name
            return orig(token)

        port.put = put

    res = S.execute(sim, shape, faults, max_retries=8, check_dirs=observe)
    d = S.desc(shape, faults) + f" fixed={fixed_step}"
    if problems:
        k, msg = problems[0]
        raise Violation(k, f"{msg}; {d}", signature=k)
    if res.status == "deadlock":
        raise Violation("deadlock", f"run never completed; {d}", signature="deadlock")
    if res.status == "raised":
        raise Violation("run_failed", f"executor raised: {sim.errors[-2:]}; {d}", signature=f"run_failed:{sim.errors[-1][:2] if sim.errors else None}")
    if fixed_step is None or shape["kind"] == "pipe":
        _c16.check_result(sim, res, shape, faults)
    sim.run(res.ctx.close())
    sim.probe("job_tokens_checked", checked[0])
    return {"nontrivial": shape.get("n", 1) >= 4, "sample": {"shape": shape, "fixed": fixed_step, "faults": [f"{p}:{j}" for p, j in faults], "job_tokens": checked[0]}}
