"""C34 — exported run provenance is self-contained and consistent."""
from __future__ import annotations

import contextlib
import hashlib
import io
import json
import os
import re
import zipfile
import zlib

from ..core import Violation, repo_frame_of
from ..harness import cwlgen, cwlrun
from ..harness.engine import canon

ID = "C34"
LEVEL = "exploration"
RULE = (
    "each run generates one CWL document with the C29 grammar, executes it with StreamFlow's CWL front end under the "
    "simulator (seeded schedule: the database rows the export reads - tokens, provenance, executions, start/end times "
    "- are a product of the interleaving) and, when the run completes, exports it with "
    "prov_classes['run_crate']['cwl'].create_archive through the same live database. Oracle on the archive: it is a "
    "readable zip; ro-crate-metadata.json is JSON with an @graph of objects that all have an @id; @ids are unique; "
    "every {'@id': x} reference anywhere in the graph resolves to an entity of the graph or is an absolute IRI; every "
    "File entity with a relative @id is a member of the archive whose bytes have the recorded sha1 (and contentSize "
    "when recorded); every non-null workflow input and output value of the run is represented by an entity that is an "
    "exampleOfWork of the corresponding workflow parameter (scalar values compared as text, File values by "
    "checksum, arrays leaf by leaf in order). non-trivial = the document used scatter, when, several sources or a subworkflow; distinct = digests "
    "of the documents"
)
COMPONENTS = {
    "real": ["RunCrateProvenanceManager.create_archive / add_file / _get_property_values", "CWLRunCrateProvenanceManager", "DefaultDatabaseLoadingContext + Workflow.load of the executed workflow",
             "the whole CWL run that produced the database (see C29)"],
    "stub": ["aiosqlite thread -> FIFO server", "run_in_subprocess seam"],
}
ASSUMPTIONS = ["a run that exhausts its wall-clock cap (300 s; documents with hundreds of process-spawning jobs on a loaded machine) or whose reference run is too slow is counted as undecided (probes wall_timeout_undecided, reference.timeout, reference.too_slow), never as a violation and never as evidence",
               "null inputs/outputs need no representation", "array values are compared leaf by leaf in order (the export flattens nested arrays); arrays containing nulls only for the presence of their entity",
               "runs that fail are not exported (the statement speaks of completed runs)"]
# grammar 2 = grammar 1 + tool-level defaults, valueFrom reading another input, arrays of optional ints; runs without the
# parameter (replay files recorded before it existed) use grammar 1, whose tape layout is unchanged
TIERS = {"quick": {"runs": 200, "budget_s": 75, "chunk": 3, "params": {"grammar": 2}}, "thorough": {"runs": 20000, "budget_s": 900, "chunk": 2, "params": {"grammar": 2}}}
# one run spawns up to a few hundred real processes (node, /bin/echo, /bin/cat): on a loaded machine a chunk may need minutes
STALL_S = 420
WALL_TIMEOUT = "undecided"
SIM_KW = {"max_steps": 3_000_000, "wall_cap": 300.0, "max_vtime": 1e7}


def refs_of(obj, own=True):
    """Yield every {'@id': x} reference nested in obj (not the object's own @id)."""
    if isinstance(obj, dict):
        if set(obj) == {"@id"} and not own:
            yield obj["@id"]
            return
        for k, v in obj.items():
            if k == "@id" and own:
                continue
            yield from refs_of(v, False)
    elif isinstance(obj, list):
        for v in obj:
            yield from refs_of(v, False)


def is_absolute(iri):
    return bool(re.match(r"^[A-Za-z][A-Za-z0-9+.-]*:", iri))


def _leaves(v):
    if isinstance(v, list):
        for x in v:
            yield from _leaves(x)
    else:
        yield v


def check_archive(path, gen, outputs):
    d = f"features={gen['used']}; job={json.dumps(gen['job'])[:300]}"
    try:
        z = zipfile.ZipFile(path)
        names = z.namelist()
        meta = json.loads(z.read("ro-crate-metadata.json"))
    except Exception as e:
        raise Violation("archive_unreadable", f"{type(e).__name__}: {e}; {d}", signature=f"archive_unreadable:{type(e).__name__}")
    graph = meta.get("@graph")
    if not isinstance(graph, list) or not all(isinstance(e, dict) and "@id" in e for e in graph):
        raise Violation("graph_malformed", f"@graph is not a list of objects with @id; {d}", signature="graph_malformed")
    ids = {}
    for e in graph:
        if e["@id"] in ids:
            raise Violation("duplicate_id", f"@id {e['@id']!r} occurs twice: {json.dumps(ids[e['@id']])[:200]} and {json.dumps(e)[:200]}; {d}", signature=f"duplicate_id:{e.get('@type')}")
        ids[e["@id"]] = e
    for e in graph:
        for r in refs_of(e):
            if r not in ids and not is_absolute(r):
                raise Violation("dangling_reference", f"entity {e['@id']!r} ({e.get('@type')}) references {r!r}, which is not in the graph; {d}",
                                signature=f"dangling_reference:{e.get('@type') if isinstance(e.get('@type'), str) else 'workflow'}")
    for e in graph:
        ty = e.get("@type")
        tys = ty if isinstance(ty, list) else [ty]
        if "File" in tys and not is_absolute(e["@id"]) and not e["@id"].startswith("#"):
            if e["@id"] not in names:
                raise Violation("file_missing_from_archive", f"File entity {e['@id']!r} ({e.get('alternateName')}) is not a member of the archive {names[:8]}; {d}",
                                signature="file_missing_from_archive")
            data = z.read(e["@id"])
            if "sha1" in e and hashlib.sha1(data).hexdigest() != e["sha1"]:
                raise Violation("file_checksum_mismatch", f"File entity {e['@id']!r}: recorded sha1 {e['sha1']} but the member has {hashlib.sha1(data).hexdigest()}; {d}", signature="file_checksum_mismatch")
            if "contentSize" in e and int(e["contentSize"]) != len(data):
                raise Violation("file_size_mismatch", f"File entity {e['@id']!r}: recorded contentSize {e['contentSize']} but the member has {len(data)} bytes; {d}", signature="file_size_mismatch")
    # every non-null input / output value is represented
    by_param = {}
    for e in graph:
        ex = e.get("exampleOfWork")
        for r in ([ex] if isinstance(ex, dict) else ex or []):
            if isinstance(r, dict) and "@id" in r:
                by_param.setdefault(r["@id"], []).append(e)
    main = os.path.basename(gen["wf"])
    def with_checksums(v):
        if isinstance(v, list):
            return [with_checksums(x) for x in v]
        if isinstance(v, dict) and v.get("class") == "File" and not v.get("checksum") and v.get("path") and os.path.isfile(v["path"]):
            with open(v["path"], "rb") as f:
                return {**v, "checksum": "sha1$" + hashlib.sha1(f.read()).hexdigest()}
        return v

    for kind, values in (("input", {k: with_checksums(x) for k, x in gen["job"].items()}), ("output", outputs)):
        for name, v in values.items():
            if v is None:
                continue
            ents = by_param.get(f"{main}#{name}", [])
            if not ents:
                raise Violation("value_not_represented", f"workflow {kind} {name} = {json.dumps(v)[:120]} has no entity that is an exampleOfWork of {main}#{name}; {d}",
                                signature=f"value_not_represented:{kind}:{type(v).__name__}")
            if isinstance(v, (bool, int, float, str)):
                if not any(str(e.get("value")) == str(v) for e in ents):
                    raise Violation("value_misrepresented", f"workflow {kind} {name} = {v!r} is represented as {[e.get('value') for e in ents]}; {d}",
                                    signature=f"value_misrepresented:{kind}:{type(v).__name__}")
            elif isinstance(v, list):
                leaves = list(_leaves(v))
                if any(x is None for x in leaves) or any(isinstance(x, dict) and not (x.get("class") == "File" and x.get("checksum")) for x in leaves):
                    continue   # arrays with nulls / files without a checksum: presence only
                want = [x["checksum"].split("$")[-1] if isinstance(x, dict) else str(x) for x in leaves]

                def shown(e):
                    val = e.get("value")
                    val = val if isinstance(val, list) else [val]
                    return [(x.get("@id") if isinstance(x, dict) else str(x)) for x in val]

                if not any(shown(e) == want for e in ents):
                    raise Violation("value_misrepresented", f"workflow {kind} {name} = array of {len(want)} leaves {want[:6]} is represented as {[shown(e)[:8] for e in ents]}; {d}",
                                    signature=f"value_misrepresented:{kind}:array_of_{'File' if any(isinstance(x, dict) for x in leaves) else 'scalars'}")
            elif isinstance(v, dict) and v.get("class") == "File" and v.get("checksum"):
                want = v["checksum"].split("$")[-1]
                if not any(e.get("sha1") == want or e["@id"] == want for e in ents):
                    raise Violation("value_misrepresented", f"workflow {kind} {name}: File with checksum {want} is represented by {[(e['@id'], e.get('sha1')) for e in ents]}; {d}",
                                    signature=f"value_misrepresented:{kind}:File")
    return len(graph)


def run(sim, params):
    t = sim.tape
    docdir = os.path.join(sim.scratch, "doc")
    os.makedirs(docdir, exist_ok=True)
    gen = cwlgen.generate(t, docdir, max_steps=params.get("max_steps", 5), grammar=params.get("grammar", 1))
    state = {}

    async def main():
        r = await cwlrun.run_cwl(sim, gen["wf"], gen["jobfile"], os.path.join(sim.scratch, "sf-out"), "run0", keep_context=True)
        state["run"] = r
        if r.status != "ok":
            return
        from streamflow.core.workflow import Workflow
        from streamflow.persistence.loading_context import DefaultDatabaseLoadingContext
        from streamflow.provenance import prov_classes

        ctx = r.context
        try:
            dbc = DefaultDatabaseLoadingContext(ctx.database)
            wfs = [await Workflow.load(persistent_id=w["id"], loading_context=dbc) for w in await ctx.database.get_workflows_by_name("run0", last_only=True)]
            pm = prov_classes["run_crate"]["cwl"](ctx, dbc, wfs)
            with contextlib.redirect_stdout(io.StringIO()):
                await pm.create_archive(outdir=os.path.join(sim.scratch, "crate"), filename="crate.zip", config=None, additional_files=None, additional_properties=None)
            state["archive"] = os.path.join(sim.scratch, "crate", "crate.zip")
        except Exception as e:
            fr = repo_frame_of(e.__traceback__)
            if fr is None:
                raise
            state["export_error"] = (type(e).__name__, fr, str(e)[:300])
        finally:
            await ctx.close()

    sim.run(main())
    r = state["run"]
    for f in gen["used"]:
        sim.probe("grammar." + f)
    sim.probe("run." + r.status)
    if r.status == "ok":
        if "export_error" in state:
            n, fr, msg = state["export_error"]
            raise Violation("export_raised", f"create_archive raised {n} at {fr}: {msg}; features={gen['used']}; job={json.dumps(gen['job'])[:300]}", signature=f"export_raised:{n}:{fr}")
        n = check_archive(state["archive"], gen, r.outputs)
        sim.probe("graph_entities", n)
    nontrivial = any(f.startswith(("scatter", "when", "step_input.linkMerge", "step_input.pickValue", "subworkflow", "output.")) for f in gen["used"])
    return {"nontrivial": nontrivial and r.status == "ok", "sig": zlib.crc32(canon(gen["doc"]).encode()),
            "sample": {"features": gen["used"], "run": r.status, "steps": len(gen["doc"]["steps"])}}
