"""C27 — batch jobs complete only after leaving the queue."""
from __future__ import annotations

import asyncio

from ..core import Violation
from ..harness import slurm
from ..harness.engine import canon

from streamflow.core.exception import WorkflowExecutionException
from streamflow.deployment.connector.queue_manager import SlurmConnector

ID = "C27"
LEVEL = "exploration"
RULE = (
    "each run draws 1..6 batch jobs (pending 0..20 s, runtime 0..100 s, exit code 0..3, submit offsets 0..30 s), "
    "pollingInterval 1..10 s, command latencies of the login node, and optionally an undeploy() at a seed-chosen "
    "virtual instant, optionally preceded by the cancellation of the caller of one run() (fault run_caller_cancelled: the "
    "job may still be queued and must then be cancelled by the undeploy); the real SlurmConnector submits/polls through a fake cluster that parses the exact "
    "sbatch/squeue/scontrol/cat/scancel command lines. Oracle over the cluster log in virtual time: run() for job J "
    "returns only at a time >= J's finish, with J's own output and exit code; undeploy cancels exactly the jobs not "
    "finished at that instant. non-trivial = at least two jobs overlapped in the queue; distinct = loop digests"
)
COMPONENTS = {
    "real": ["SlurmConnector / QueueManagerConnector.run, undeploy, _get_running_jobs (+ cachebox.cached wrapper), _run_batch_command, _get_output, _get_returncode",
             "CommandTemplateMap", "create_command", "ConnectorWrapper.run"],
    "stub": ["SimSlurmHost: in-process model of sbatch/squeue/scontrol/cat/scancel in virtual time (a model, not Slurm)",
             "SimTTLCache replaces cachebox.TTLCache (expiry on the virtual clock)"],
}
ASSUMPTIONS = ["squeue itself never fails (no such fault in the statement)", "run() calls still in flight when undeploy() is requested are abandoned by the harness afterwards"]
TIERS = {"quick": {"runs": 3000, "budget_s": 50}, "thorough": {"runs": 200000, "budget_s": 420}}
SIM_KW = {"max_steps": 300_000, "wall_cap": 30.0, "max_vtime": 1e5}


def run(sim, params):
    t = sim.tape
    njobs = 1 + t.draw(6, "njobs")
    table = {}
    offs = []
    for k in range(njobs):
        table[k] = {"pending": (0, 0, 1, 5, 20)[t.draw(5, "pending")], "runtime": (0, 1, 3, 10, 30, 100)[t.draw(6, "runtime")], "rc": t.draw(4, "rc")}
        offs.append((0, 0, 1, 4, 9, 30)[t.draw(6, "submit.at")])
    poll = (1, 2, 5, 10)[t.draw(4, "polling")]
    undeploy_at = (None, None, 0, 3, 8, 25, 60)[t.draw(7, "undeploy.at")]
    maxjobs = 1 + t.draw(6, "maxConcurrentJobs")
    # fault: the caller of one run() is cancelled (workflow failure, Ctrl-C) while its job may still be queued; the job then
    # stays the connector's responsibility until undeploy
    cancel_job = t.draw(njobs, "cancel.job") if undeploy_at is not None and t.draw(3, "cancel") == 2 else None
    cancel_at = (0, 1, 2, 5, 15, 40)[t.draw(6, "cancel.at")] if cancel_job is not None else None
    info = {"table": table, "submit_at": offs, "polling": poll, "undeploy_at": undeploy_at, "cancel": [cancel_job, cancel_at]}
    res = {}
    state = {}

    async def main():
        host = slurm.SimSlurmHost("cluster-host", sim.scratch, table=table)
        conn = SlurmConnector("slurm", sim.scratch, connector=host, service=None, maxConcurrentJobs=maxjobs, pollingInterval=poll)
        loc = next(iter((await conn.get_available_locations()).values())).location
        state.update(host=host, conn=conn)

        async def one(k):
            await asyncio.sleep(offs[k])
            try:
                out, rc = await conn.run(loc, ["simjob", str(k)], environment={"A": "1"}, workdir="/scratch", capture_output=True, job_name=f"/step/0.{k}")
                res[k] = ("ok", sim.loop.time(), out, rc, sim.loop.steps)
            except asyncio.CancelledError:
                res[k] = ("cancelled", sim.loop.time(), None, None, sim.loop.steps)
                raise
            except (WorkflowExecutionException, KeyError) as e:
                res[k] = ("raised", sim.loop.time(), repr(e)[:100], None, sim.loop.steps)

        tasks = [asyncio.create_task(one(k), name=f"job{k}") for k in range(njobs)]
        if cancel_job is not None and cancel_at < undeploy_at:
            async def canceller():
                await asyncio.sleep(cancel_at)
                if not tasks[cancel_job].done():
                    sim.fault("run_caller_cancelled")
                    tasks[cancel_job].cancel()

            asyncio.create_task(canceller(), name="canceller")
        if undeploy_at is None:
            await asyncio.gather(*tasks)
        else:
            await asyncio.sleep(undeploy_at)
            state["undeploy_time"] = sim.loop.time()
            state["undeploy_step"] = sim.loop.steps
            try:
                await conn.undeploy(False)
            except Exception as e:
                from ..core import repo_frame_of

                state["undeploy_exc"] = (type(e).__name__, repo_frame_of(e.__traceback__), str(e)[:200])
            state["undeploy_done"] = sim.loop.time()
            for tk in tasks:
                tk.cancel()
            await asyncio.gather(*tasks, return_exceptions=True)

    sim.run(main())
    host = state["host"]
    byk = {j["k"]: (jid, j) for jid, j in host.jobs.items()}
    case = f"case={canon(info)}"
    und = state.get("undeploy_time")
    if "undeploy_exc" in state:
        x = state["undeploy_exc"]
        raise Violation("undeploy_raised", f"undeploy() with jobs still scheduled raised {x[0]} at {x[1]}: {x[2]}; {case}",
                        signature=f"undeploy_raised:{x[0]}:{x[1]}")
    ustep = state.get("undeploy_step")
    for k, (st, tret, out, rc, rstep) in res.items():
        if st == "ok":
            if k not in byk:
                raise Violation("finished_without_submission", f"run() for job {k} returned without a submission; {case}")
            jid, j = byk[k]
            if und is not None and rstep > ustep:
                continue  # returned after undeploy was requested: abandoned by the harness
            if tret < j["finish"]:
                raise Violation("reported_finished_too_early",
                                f"run() for job {k} (id {jid}) returned at t={tret:.3f} but the job leaves the queue at t={j['finish']:.3f}; {case}",
                                signature="reported_finished_too_early")
            if out != f"output-of-{k}" or rc != table[k]["rc"]:
                raise Violation("wrong_output_or_exit_code", f"run() for job {k} returned ({out!r}, {rc}) expected ('output-of-{k}', {table[k]['rc']}); {case}")
        elif st == "raised" and und is None:
            raise Violation("run_raised", f"run() for job {k} raised {out} without any fault; {case}")
    if und is not None:
        want = sorted(jid for jid, j in host.jobs.items() if j["submit"] <= und and j["finish"] > und and
                      not any(r[0] == "ok" and r[4] <= ustep for kk, r in res.items() if kk == j["k"]))
        # jobs submitted after undeploy started are not the undeploy's business
        got = sorted({i for e in host.log if e[0] == "scancel" for i in e[2]})
        got_rel = [g for g in got if host.jobs.get(g, {}).get("submit", 1e18) <= und]
        # a job that already finished but whose run() has not polled again yet is still "scheduled"
        # for the connector: cancelling it as well is harmless and not demanded either way
        unreported = {jid for jid, j in host.jobs.items() if j["submit"] <= und and j["finish"] <= und and
                      not any(r[0] == "ok" and r[4] <= ustep for kk, r in res.items() if kk == j["k"])}
        # ...but once the connector asked for a job's output / exit code it has seen the job leave the
        # queue: that job is not "still queued" in any reading, and must not be cancelled any more
        fetched = set()
        for e in host.log:
            if e[0] == "fetch" and e[3] < ustep:  # before undeploy() was even called
                fetched.add(e[2])
            elif e[0] == "scancel":
                late = sorted(set(e[2]) & fetched)
                if late:
                    raise Violation("undeploy_cancel_set", f"undeploy at t={und} cancelled {late} after the connector had already seen them leave the queue and "
                                    f"started collecting their results; {case}", signature="undeploy_cancel_set:extra_after_result_fetch")
        missed = set(want) - set(got_rel)
        extra = set(got_rel) - set(want) - unreported
        if missed or extra:
            raise Violation("undeploy_cancel_set", f"undeploy at t={und} cancelled {got}; still queued/running: {want}; missed={sorted(missed)} extra={sorted(extra)}; {case}",
                            signature="undeploy_cancel_set:" + ("missed" if missed else "extra"))
        if want:
            sim.probe("undeploy_with_jobs_in_queue")
    overlap = sum(1 for a in host.jobs.values() for b in host.jobs.values() if a is not b and a["submit"] < b["finish"] and b["submit"] < a["finish"]) > 0
    return {"nontrivial": overlap, "sample": info}
