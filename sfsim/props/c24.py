"""C24 — remote path operations agree with the local filesystem."""
from __future__ import annotations

import asyncio
import os
import stat
import zlib

from ..core import Violation, repo_frame_of
from ..harness import shellconn  # noqa: F401  (registers the "simshell" connector type)
from ..harness.engine import canon, make_context

from streamflow.core.deployment import DeploymentConfig, ExecutionLocation
from streamflow.data.remotepath import StreamFlowPath

ID = "C24"
LEVEL = "exploration"
RULE = (
    "each run builds two equal directory trees (one on the local file system, one on a shell-based remote location: "
    "SimShellConnector = real BaseConnector/BaseShell code over a real persistent sh, or one-shot sh -c) and lets 1..2 "
    "clients, each in its own subtree, execute the same random sequence of 1..14 (30 thorough) path operations on "
    "both through LocalStreamFlowPath and RemoteStreamFlowPath: exists, is_file, is_dir, is_symlink, mkdir (mode, "
    "parents, exist_ok), write_text, read_text (n = -1, 0, 3, 100), size, checksum, glob (*, *.txt, ?, [..], sub/*), "
    "walk (top_down, follow_symlinks), resolve, rmtree, symlink_to (relative, absolute, dangling), hardlink_to, chmod. "
    "Names come from one hostile class per run (space, single/double quote, unicode, leading dash, glob "
    "metacharacters, $ and backtick, backslash) mixed with plain names; contents include empty, trailing newlines, "
    "surrounding blanks, multi-byte text and text larger than transferBufferSize. Schedule: transferBufferSize "
    "16..65536, how the persistent shell's replies are cut into reads (1, 7, random, whole), virtual durations of the "
    "remote commands, interleaving of the two clients on the shared shell, the shell dying before command k (the "
    "connector then falls back to one-shot processes). Oracle after every operation: same normalised return value (or "
    "both raise), and the client's subtree read from the host is identical on both sides (kinds, contents, file "
    "modes, symlink targets, hard-link groups). non-trivial = a hostile name, a cut reply, two clients or a shell "
    "death was involved; distinct = digests of (names, operation list, schedule options)"
)
COMPONENTS = {
    "real": ["RemoteStreamFlowPath (every operation's command construction and output parsing)", "LocalStreamFlowPath", "StreamFlowPath factory",
             "core.utils.run_in_shell, create_command", "BaseShell.execute/_read_with_output", "BaseConnector.get_shell / run fallback", "real sh, coreutils, find, awk, sha1sum"],
    "stub": ["simproc: process spawn/pipe seam (real children run synchronously; timing and chunking of their output simulated)",
             "SimShellConnector transport; the remote location is a directory bind-mounted in a private mount namespace"],
}
ASSUMPTIONS = [
    "directory permission bits are not compared (os.mkdir applies the umask, `mkdir -m` does not); file modes are",
    "glob and walk results are compared as sets: the order in which a directory is listed is unspecified on both sides",
    "wrapped locations (inner paths resolved through mount points) are not generated: no container runtime in the sandbox",
    "no command-channel fault other than the death of the persistent shell between commands is injected: the statement has no fault in it",
]
TIERS = {"quick": {"runs": 600, "budget_s": 100, "chunk": 4}, "thorough": {"runs": 60000, "budget_s": 480, "chunk": 8, "params": {"big": True}}}
STALL_S = 600   # real child processes: a chunk may need minutes on a loaded machine
SIM_KW = {"max_steps": 2_000_000, "wall_cap": 60.0, "max_vtime": 1e7}

PLAIN = ["a", "b.txt", "sub", "c.txt", "d", "e"]
HOSTILE = {
    "space": ["two words", "x y.txt", " lead"],
    "squote": ["it's", "q'.txt"],
    "dquote": ['d"q', 'w".txt'],
    "unicode": ["ünï✓", "漢字.txt"],
    "leading_dash": ["-dash", "--x.txt", "-rf"],
    "glob_meta": ["st*r", "q?m.txt", "[ab]"],
    "dollar": ["do$llar", "`bt`.txt", "$(x)"],
    "backslash": ["back\\slash", "t\\n.txt"],
}
CONTENTS = ["", "x", "line\n", "two\nlines\n", "no newline", "  spaced  ", "trailing\n\n\n", "\nleading newline", "ünï ✓ 漢字\n", "tab\there\n"]
OPS = ["exists", "is_file", "is_dir", "is_symlink", "mkdir", "write_text", "write_text", "read_text", "read_text", "size", "checksum", "glob", "walk",
       "resolve", "rmtree", "symlink_to", "hardlink_to", "chmod"]


def name_class(parts):
    for p in parts:
        for cls, names in HOSTILE.items():
            if p in names:
                return cls
    return "plain"


def snapshot(root, vis=None):
    """Host view of a tree: relpath -> description. `vis` = the path under which the location itself sees `root`."""
    vis = vis or root
    out = {}
    inodes = {}
    if not os.path.lexists(root):
        return {"": ("missing",)}
    stack = [""]
    while stack:
        rel = stack.pop()
        p = os.path.join(root, rel) if rel else root
        st = os.lstat(p)
        if stat.S_ISLNK(st.st_mode):
            tgt = os.readlink(p)
            out[rel] = ("link", "<ROOT>" + tgt[len(vis):] if tgt == vis or tgt.startswith(vis + "/") else tgt)
        elif stat.S_ISDIR(st.st_mode):
            out[rel] = ("dir",)
            for n in sorted(os.listdir(p)):
                stack.append(os.path.join(rel, n) if rel else n)
        else:
            with open(p, "rb") as f:
                data = f.read()
            out[rel] = ["file", data, stat.S_IMODE(st.st_mode)]
            inodes.setdefault(st.st_ino, []).append(rel)
    for rels in inodes.values():
        for r in rels:
            out[r] = tuple(out[r]) + (tuple(sorted(rels)),)
    return out


def diff_snap(a, b):
    for k in sorted(set(a) | set(b)):
        if k not in a:
            return f"{k!r} exists only remotely ({b[k][0]})"
        if k not in b:
            return f"{k!r} exists only locally ({a[k][0]})"
        if a[k] != b[k]:
            x, y = a[k], b[k]
            if x[0] != y[0]:
                return f"{k!r}: {x[0]} locally, {y[0]} remotely"
            if x[0] == "file":
                if x[1] != y[1]:
                    return f"{k!r}: content {x[1][:40]!r}({len(x[1])}) locally, {y[1][:40]!r}({len(y[1])}) remotely"
                if x[2] != y[2]:
                    return f"{k!r}: mode {x[2]:o} locally, {y[2]:o} remotely"
                return f"{k!r}: hard links {x[3]} locally, {y[3]} remotely"
            return f"{k!r}: {x} locally, {y} remotely"
    return None


def run(sim, params):
    t = sim.tape
    big = params.get("big", False)
    nclients = 1 + (t.draw(3, "clients") == 0)
    bufsize = (16, 100, 4096, 65536)[t.draw(4, "bufsize")]
    cutpol = ("all", "all", "1", "7", "random")[t.draw(5, "cut")]
    use_shell = t.draw(5, "oneshot") != 0
    shell_dies = (None, None, None, None, 1, 3, 6)[t.draw(7, "shell.dies")] if use_shell else None
    hostile = list(HOSTILE)[t.draw(len(HOSTILE), "names.class")] if t.draw(2, "names.hostile") == 0 else None
    pool = PLAIN + (HOSTILE[hostile] if hostile else [])
    nops = 1 + t.draw(30 if big else 14, "nops")
    info = {"clients": nclients, "bufsize": bufsize, "cut": cutpol, "persistent_shell": use_shell, "shell_dies_before": shell_dies, "names": hostile or "plain", "ops": []}

    def cut(reader, avail):
        if cutpol == "all":
            return avail
        if reader.delivered > 2000:
            return 4096
        if cutpol == "random":
            return 1 + t.draw(64, "cut.n")
        return int(cutpol)

    sim.info["pipe_cut"] = cut
    sim.info["shell_cmd_model"] = lambda proc, data, out: {"duration": (0, 0, 0, 1, 3)[t.draw(5, "cmd.dur")], "early_fraction": (0.0, 0.5)[t.draw(2, "early")]}
    sim.info["subprocess_model"] = lambda argv, p: (0, 0, 1)[t.draw(3, "sub.dur")]
    if shell_dies is not None:
        sim.info["proc_model"] = lambda proc: {"shell_dies_at_command": shell_dies} if len([p for p in sim.info["procs"] if p.orig_argv[-1:] == ["sh"]]) == 1 else {}

    def pick_name(label):
        if hostile and t.draw(2, label + ".h") == 0:
            return HOSTILE[hostile][t.draw(len(HOSTILE[hostile]), label + ".hn")]
        return pool[t.draw(len(pool), label)]

    def seed_tree(k):
        """Initial content of client k's subtree: list of (relparts, kind, payload)."""
        items = []
        dirs = [()]
        for i in range(t.draw(6, "tree.n")):
            parent = dirs[t.draw(len(dirs), "tree.parent")]
            name = pick_name("tree.name")
            rel = parent + (name,)
            if any(it[0] == rel for it in items):
                continue
            kind = ("file", "file", "dir", "link")[t.draw(4, "tree.kind")]
            if kind == "dir" and len(rel) < 3:
                dirs.append(rel)
                items.append((rel, "dir", None))
            elif kind == "link":
                items.append((rel, "link", pick_name("tree.link")))
            else:
                items.append((rel, "file", CONTENTS[t.draw(len(CONTENTS), "tree.content")]))
        return items

    def materialise(root, items):
        os.makedirs(root, exist_ok=True)
        for rel, kind, payload in items:
            p = os.path.join(root, *rel)
            if kind == "dir":
                os.makedirs(p, exist_ok=True)
            elif kind == "link":
                os.symlink(payload, p)
            else:
                with open(p, "w", encoding="utf-8") as f:
                    f.write(payload)

    def existing(lroot):
        """Relative part-tuples of everything that currently exists in the local subtree, plus the root."""
        out = [()]
        for dp, dn, fn in os.walk(lroot):
            relp = tuple(os.path.relpath(dp, lroot).split(os.sep)) if dp != lroot else ()
            for n in sorted(dn + fn):
                out.append(relp + (n,))
        return sorted(out)

    def pick_path(lroot, label, want="any"):
        ex = existing(lroot)
        mode = t.draw(4, label + ".mode")
        if want == "new":
            mode = 2 if mode != 3 else 3
        if mode in (0, 1) or want == "existing":
            return ex[t.draw(len(ex), label + ".ex")]
        dirs = [e for e in ex if os.path.isdir(os.path.join(lroot, *e)) and not os.path.islink(os.path.join(lroot, *e)) and len(e) < 3] or [()]
        parent = dirs[t.draw(len(dirs), label + ".dir")]
        if mode == 2:
            return parent + (pick_name(label + ".name"),)
        return parent + (pick_name(label + ".name"), pick_name(label + ".name2"))   # parent missing too

    state = {}

    async def main():
        ctx = make_context(sim)
        from streamflow.core.deployment import LocalTarget

        await ctx.deployment_manager.deploy(LocalTarget().deployment)
        await ctx.deployment_manager.deploy(DeploymentConfig(name="rem", type="simshell", config={"locations": ["n0"], "transferBufferSize": bufsize, "use_shell": use_shell},
                                                             external=False, lazy=False, workdir=None))
        conn = ctx.deployment_manager.get_connector("rem")
        rloc = conn.location("n0")
        lloc = ExecutionLocation(name="__LOCAL__", deployment="__LOCAL__", local=True)
        state["ctx"] = ctx
        L_base = os.path.join(sim.scratch, "ltree")
        R_host_base = os.path.join(conn.roots["n0"], "rtree")
        R_vis_base = os.path.join(conn.visible_root("n0"), "rtree")

        async def call(P, root, op, args):
            """Execute op on path object P; normalise the result relative to root."""
            def rel(x):
                s = str(x)
                base = os.path.dirname(os.path.dirname(root))
                if s == root or s.startswith(root + "/"):
                    return os.path.relpath(s, root)
                return "<OUTSIDE>" + (s[len(base):] if s.startswith(base + "/") else s).replace("/ltree", "/<tree>").replace("/rtree", "/<tree>")

            if op in ("exists", "is_file", "is_dir", "is_symlink", "size", "checksum"):
                return await getattr(P, op)()
            if op == "mkdir":
                return await P.mkdir(mode=args["mode"], parents=args["parents"], exist_ok=args["exist_ok"])
            if op == "write_text":
                return await P.write_text(args["data"])
            if op == "read_text":
                return await P.read_text(n=args["n"])
            if op == "glob":
                return sorted([rel(x) async for x in P.glob(args["pattern"])])
            if op == "walk":
                out = []
                async for dp, dn, fn in P.walk(top_down=args["top_down"], follow_symlinks=args["follow"]):
                    out.append((rel(dp), tuple(sorted(dn)), tuple(sorted(fn))))
                    if len(out) > 300 and args.get("_pre") == "tree_with_symlinks":
                        # following a symbolic-link loop is bounded only by ELOOP on both sides: not a comparison worth making
                        return "<walk through a symbolic-link loop: more than 300 directories>"
                    if len(out) > 300:
                        raise Violation("never_ends", f"walk({args}) yielded more than 300 directories for a tree of fewer than 40 entries: {out[-3:]}; case={canon(info)}",
                                        signature="walk:never_ends")
                return sorted(out)
            if op == "resolve":
                r = await P.resolve()
                return None if r is None else rel(r)
            if op == "rmtree":
                return await P.rmtree()
            if op == "symlink_to":
                tgt = args["target"] if not args["absolute"] else os.path.join(root, *args["target_parts"])
                return await P.symlink_to(tgt)
            if op == "hardlink_to":
                return await P.hardlink_to(os.path.join(root, *args["target_parts"]))
            if op == "chmod":
                return await P.chmod(args["mode"])
            raise AssertionError(op)

        async def guarded(P, root, op, args):
            try:
                return ("ok", await call(P, root, op, args))
            except (Violation, asyncio.CancelledError):
                raise
            except Exception as e:
                return ("raised", f"{type(e).__name__}: {str(e)[:160]}", repo_frame_of(e.__traceback__))

        async def client(k):
            lroot = os.path.join(L_base, f"c{k}")
            rhost = os.path.join(R_host_base, f"c{k}")
            rvis = os.path.join(R_vis_base, f"c{k}")
            items = seed_tree(k)
            materialise(lroot, items)
            materialise(rhost, items)
            for i in range(nops):
                op = OPS[t.draw(len(OPS), "op")]
                parts = pick_path(lroot, "path", want="new" if op in ("mkdir", "symlink_to", "hardlink_to") and t.draw(4, "path.new") else "any")
                args = {}
                ncls = name_class(parts)
                if parts == () and op in ("rmtree", "symlink_to", "hardlink_to", "write_text", "chmod"):
                    # replacing or removing the client's own root directory makes every later comparison a comparison of
                    # the harness's base directories, not of the code under test
                    op = "exists"
                if op == "mkdir":
                    args = {"mode": (0o777, 0o755, 0o700)[t.draw(3, "mkdir.mode")], "parents": bool(t.draw(2, "mkdir.parents")), "exist_ok": bool(t.draw(2, "mkdir.exist_ok"))}
                elif op == "write_text":
                    c = t.draw(len(CONTENTS) + 2, "content")
                    if c < len(CONTENTS):
                        data = CONTENTS[c]
                    elif c == len(CONTENTS):
                        data = "0123456789abcdef\n" * ((bufsize * 3) // 17 + 1 if bufsize < 65536 else (8192 if big else 400))
                    else:
                        data = "αβγδεζηθ 漢字\n" * ((bufsize * 2) // 11 + 1 if bufsize < 65536 else (8192 if big else 300))
                    args = {"data": data}
                elif op == "read_text":
                    args = {"n": (-1, -1, 0, 3, 100)[t.draw(5, "read.n")]}
                elif op == "glob":
                    pats = ["*", "*.txt", "?", "[a-c]*", "sub/*", "*/*", pick_name("glob.lit")]
                    args = {"pattern": pats[t.draw(len(pats), "glob.pattern")]}
                elif op == "walk":
                    args = {"top_down": bool(t.draw(2, "walk.top_down")), "follow": bool(t.draw(3, "walk.follow") == 0)}
                elif op in ("symlink_to", "hardlink_to"):
                    tparts = pick_path(lroot, "target", want="existing" if op == "hardlink_to" or t.draw(3, "target.dangling") else "any")
                    args = {"target_parts": list(tparts), "absolute": op == "hardlink_to" or bool(t.draw(2, "target.abs")),
                            "target": tparts[-1] if tparts else "."}
                    if name_class(tparts) != "plain":
                        ncls = name_class(tparts)
                elif op == "chmod":
                    args = {"mode": (0o755, 0o644, 0o600, 0o700, 0o444)[t.draw(5, "chmod.mode")]}
                shown = {kk: (vv if kk != "data" else f"{vv[:24]!r}..({len(vv)} chars)") for kk, vv in args.items()}
                info["ops"].append([k, op, "/".join(parts), shown])
                sim.log("OP", k, i, op)
                pre = precondition(op, args, lroot, parts)
                if op == "walk":
                    args["_pre"] = pre
                LP = StreamFlowPath(os.path.join(lroot, *parts), context=ctx, location=lloc)
                RP = StreamFlowPath(os.path.join(rvis, *parts), context=ctx, location=rloc)
                lres = await guarded(LP, lroot, op, args)
                await sim.io("client", k)
                rres = await guarded(RP, rvis, op, args)
                where = f"client {k} op #{i} {op}({'/'.join(parts)!r}, {shown})"
                if lres[0] != rres[0]:
                    side = "remote" if rres[0] == "raised" else "local"
                    raise Violation("raises_on_one_side", f"{where}: local -> {lres[:2]}, remote -> {rres}; case={canon(info)[:1500]}",
                                    signature=f"{op}:{pre}" if pre else f"{op}:raises_only_{side}:{ncls}")
                if lres[0] == "ok" and lres[1] != rres[1]:
                    raise Violation("result_differs", f"{where}: local returned {short(lres[1])}, remote returned {short(rres[1])}; case={canon(info)[:1500]}",
                                    signature=f"{op}:{pre}" if pre else f"{op}:result_differs:{ncls}")
                d = diff_snap(snapshot(lroot), snapshot(rhost, rvis))
                if d:
                    raise Violation("state_differs", f"{where}: local -> {short(lres[1])}, remote -> {short(rres[1])}; afterwards the trees differ: {d}; case={canon(info)[:1500]}",
                                    signature=f"{op}:{pre}" if pre else f"{op}:state_differs:{ncls}")
                sim.probe(f"op.{op}.{lres[0]}")

        await asyncio.gather(*(asyncio.create_task(client(k), name=f"client{k}") for k in range(nclients)))
        await ctx.deployment_manager.undeploy_all()
        await ctx.close()

    def short(v):
        s = repr(v)
        return s if len(s) < 300 else s[:300] + f"...({len(s)})"

    def has_symlink(p):
        return os.path.islink(p) or any(os.path.islink(os.path.join(dp, n)) for dp, dn, fn in os.walk(p, followlinks=True) for n in dn + fn)

    def precondition(op, args, lroot, parts):
        """Situations, decided on the local tree BEFORE the operation runs, in which the remote implementation is known to
        follow other rules than the local one (each is a listed known finding). Only a divergence that occurs in such a
        situation gets the situation's signature; every other divergence is identified by operation, kind and name class."""
        p = os.path.join(lroot, *parts)
        if op in ("symlink_to", "hardlink_to") and os.path.lexists(p):
            return "destination_exists"
        if op == "mkdir":
            if os.path.lexists(p) and args["parents"] and not args["exist_ok"]:
                return "parents_without_exist_ok_on_existing_path"
            if not os.path.lexists(os.path.dirname(p)) and args["exist_ok"] and not args["parents"]:
                return "exist_ok_without_parents_on_missing_parent"
        if op == "read_text":
            n = args["n"]
            if os.path.isdir(p) and n == 0:
                return "n0_on_directory"
            if os.path.isfile(p):
                with open(p, encoding="utf-8") as f:
                    txt = f.read()
                r = txt if n < 0 else txt[:n]
                if n > 0 and txt.encode()[:n] != r.encode():
                    return "n_with_multibyte_content"
                if r != r.strip():
                    return "content_with_surrounding_whitespace"
        if op == "rmtree" and os.path.islink(p) and not os.path.exists(p):
            return "dangling_symlink"
        if op == "rmtree" and not os.path.lexists(p):
            anc = os.path.dirname(p)
            while not os.path.lexists(anc):
                anc = os.path.dirname(anc)
            if not os.path.isdir(anc):
                return "path_below_a_non_directory"
        if op == "size":
            if not os.path.lexists(p):
                return "path_missing"
            if has_symlink(p):
                return "tree_with_symlinks"
        if op == "walk":
            if not os.path.isdir(p):
                return "not_a_directory"
            if has_symlink(p):
                return "tree_with_symlinks"
        if op == "glob":
            if any(ch in args["pattern"] for ch in " '\"$`\\()"):
                return "pattern_with_shell_metacharacters"
            if any(ch in part for part in parts for ch in "*?["):
                return "directory_name_with_glob_metacharacters"
            import glob as _glob

            if any(ch in args["pattern"] for ch in "*?[") and not _glob.glob(os.path.join(_glob.escape(p), args["pattern"])) and os.path.lexists(os.path.join(p, args["pattern"])):
                return "unmatched_pattern_is_the_name_of_an_entry"
        return None

    sim.run(main())
    if shell_dies is not None and sim.info.get("shell_died"):
        sim.fault("persistent_shell_died")
    nontrivial = bool(hostile) or cutpol != "all" or nclients > 1 or shell_dies is not None
    sig = zlib.crc32(canon(info).encode())
    return {"nontrivial": nontrivial, "sig": sig, "sample": {k: (v if k != "ops" else v[:6]) for k, v in info.items()}}
