"""C09 — database reads always reflect the latest writes."""
from __future__ import annotations

import asyncio
import copy
import json

from ..core import Violation
from ..harness.engine import canon, make_context, raw_db

from streamflow.core.persistence import DependencyType
from streamflow.core.workflow import Port, Step, Token, Workflow

ID = "C09"
LEVEL = "exploration"
RULE = (
    "each run draws a history of 10..60 operations over every add_*/update_*/get_* method of SqliteDatabase "
    "(workflows, steps, ports, tokens, deployments, targets, filters, executions, dependencies, provenance; reads of "
    "ids that do not exist yet followed by the insert that creates them; updates of scalar and of JSON columns), "
    "issued by 1 client (sequential mode) or 2..4 client tasks whose statements interleave through the FIFO "
    "database server with seeded service times (concurrent mode). Reference = direct SQL on the same sqlite3 "
    "connection, bypassing the async layer and the caches. Oracle: sequential - every read equals the reference; after "
    "each read the returned row is deep-mutated and read again: still equals the reference. Concurrent - a read "
    "invoked after an update returned observes it (simulator sequence numbers), and at quiescence every row read "
    "through the API equals the reference. non-trivial = concurrent mode with >= 2 clients touching one row, or a "
    "cached row was read again after an update; distinct = loop digests"
)
COMPONENTS = {
    "real": ["SqliteDatabase (all add_/update_/get_ methods, real SQL, real schema)", "CachedDatabase LRU caches (cachebox)", "cachebox.cached async wrapper", "aiosqlite Connection/Cursor classes"],
    "stub": ["aiosqlite worker thread -> FIFO server on virtual time"],
}
ASSUMPTIONS = ["nothing is demanded of a read that overlaps a write in time", "getters are called positionally, as the repo does"]
TIERS = {"quick": {"runs": 3000, "budget_s": 50}, "thorough": {"runs": 200000, "budget_s": 420}}
SIM_KW = {"max_steps": 400_000, "wall_cap": 60.0}

TABLES = ("workflow", "step", "port", "token", "deployment", "target", "filter", "execution")
JSON_COLS = {"workflow": ["params"], "step": ["params"], "port": ["params"], "token": ["value"],
             "deployment": ["config", "scheduling_policy"], "target": ["params"], "filter": ["config"], "execution": []}


def ref_row(db, table, id_):
    cur = db.execute(f"SELECT * FROM {table} WHERE id = ?", (id_,))
    r = cur.fetchone()
    if r is None:
        return None
    row = dict(zip([c[0] for c in cur.description], r))
    for k in JSON_COLS[table]:
        row[k] = json.loads(row[k])
    if table == "deployment":
        row["wraps"] = json.loads(row["wraps"]) if row["wraps"] else None
    if table == "token":
        row["recoverable"] = bool(db.execute("SELECT EXISTS(SELECT 1 FROM recoverable WHERE id = ?)", (id_,)).fetchone()[0])
    return row


def norm(x):
    if x is None:
        return None
    if isinstance(x, (list, tuple)):
        return [norm(i) for i in x]
    if hasattr(x, "keys") and not isinstance(x, dict):
        return {k: x[k] for k in x.keys()}
    return x


def mutate(x, depth=0):
    """Deep-mutate a returned row in place."""
    if isinstance(x, dict):
        for k in list(x):
            if isinstance(x[k], (dict, list)):
                mutate(x[k], depth + 1)
            else:
                x[k] = "MUTATED"
        x["__injected__"] = depth
    elif isinstance(x, list):
        for i, v in enumerate(x):
            if isinstance(v, (dict, list)):
                mutate(v, depth + 1)
            else:
                x[i] = "MUTATED"
        x.append("__injected__")


def gen_value(t, label):
    k = t.draw(5, label)
    if k == 0:
        return {}
    if k == 1:
        return {"a": [1, 2, {"b": "x"}], "n": t.draw(100, "v")}
    if k == 2:
        return {"nested": {"deep": {"list": [t.draw(9, "v"), "é"]}}}
    if k == 3:
        return {"s": "value-%d" % t.draw(1000, "v")}
    return {"l": [[1], [2, [3]]]}


def run(sim, params):
    t = sim.tape
    nclients = (1, 1, 2, 3, 4)[t.draw(5, "nclients")]
    nops = 10 + t.draw(51, "nops")
    info = {"clients": nclients, "ops": nops}
    hist = []
    ids = {tb: [] for tb in TABLES}
    state = {}
    # version bookkeeping for the concurrent oracle: (table, id) -> list of (return_step, canonical row)
    updates_done = {}
    stale = []

    async def main():
        ctx = make_context(sim)
        db = ctx.database
        await db.get_workflows_list(None)  # opens the connection, creates the schema
        raw = raw_db(ctx)
        state.update(ctx=ctx, raw=raw)
        getters = {"workflow": db.get_workflow, "step": db.get_step, "port": db.get_port, "token": db.get_token,
                   "deployment": db.get_deployment, "target": db.get_target, "filter": db.get_filter, "execution": db.get_execution}
        updaters = {"workflow": db.update_workflow, "step": db.update_step, "port": db.update_port, "deployment": db.update_deployment,
                    "target": db.update_target, "filter": db.update_filter, "execution": db.update_execution}
        seq = nclients == 1

        async def check_get(table, id_, client):
            inv = sim.loop.steps
            try:
                got = await getters[table](id_)
            except TypeError:
                if __import__("os").environ.get("C09_DEBUG"):
                    __import__("traceback").print_exc()
                got = None  # row does not exist (dict(None))
            ret = sim.loop.steps
            g = copy.deepcopy(norm(got)) if got is not None else None
            hist.append(("get", table, id_, client))
            if seq:
                want = ref_row(raw, table, id_)
                if canon(g) != canon(want):
                    raise Violation("stale_or_wrong_read", f"get_{table}({id_}) returned {canon(g)[:300]} but the database holds {canon(want)[:300]}; history={hist[-8:]}",
                                    signature=f"stale_or_wrong_read:{table}")
                if got is not None and isinstance(got, dict):
                    mutate(got)
                    sim.probe("row_mutated")
                    try:
                        again = await getters[table](id_)
                    except TypeError:
                        again = None
                    a = copy.deepcopy(norm(again)) if again is not None else None
                    if canon(a) != canon(want):
                        raise Violation("caller_mutation_leaks", f"after mutating the row returned by get_{table}({id_}) the next read returned {canon(a)[:400]} instead of {canon(want)[:300]}",
                                        signature=f"caller_mutation_leaks:{table}")
            else:
                # must observe every update that had returned before this read was invoked
                for (rstep, field, value) in updates_done.get((table, id_), []):
                    if rstep < inv and g is not None and canon(g.get(field)) != canon(value):
                        later = [u for u in updates_done.get((table, id_), []) if u[1] == field and u[0] > rstep]
                        if not later:
                            stale.append((table, id_, field, canon(g.get(field))[:100], canon(value)[:100], inv, rstep))
            return g

        async def do_op(client):
            kind = t.draw(10, "op")
            table = TABLES[t.draw(len(TABLES), "table")]
            await sim.io("client", client)
            if kind <= 2 or not ids[table]:
                # insert (sometimes preceded by a read of the id that does not exist yet)
                if kind == 0 and table != "execution":
                    nxt = (max(ids[table]) + 1) if ids[table] else 1
                    await check_get(table, nxt, client)
                v = gen_value(t, "val")
                if table == "workflow":
                    i = await db.add_workflow(name=f"w{len(ids[table])}", params=v, status=0, type=Workflow)
                elif table == "step":
                    i = await db.add_step(name=f"/s{len(ids[table])}", workflow_id=(ids["workflow"] or [None])[-1], status=0, type=Step, params=v)
                elif table == "port":
                    i = await db.add_port(name=f"p{len(ids[table])}", workflow_id=(ids["workflow"] or [None])[-1], type=Port, params=v)
                elif table == "token":
                    i = await db.add_token(tag=f"0.{len(ids[table])}", type=Token, value=v, port=(ids["port"] or [None])[-1], recoverable=bool(t.draw(2, "rec")))
                elif table == "deployment":
                    i = await db.add_deployment(name=f"d{len(ids[table])}", type="local", config=v, external=bool(t.draw(2, "ext")), lazy=True,
                                                scheduling_policy={"name": "__DEFAULT__", "type": "data_locality", "config": {}}, workdir=None,
                                                wraps=({"deployment": "x"} if t.draw(2, "wraps") else None))
                elif table == "target":
                    if not ids["deployment"]:
                        return
                    from streamflow.core.deployment import Target
                    i = await db.add_target(deployment=ids["deployment"][-1], type=Target, params=v, locations=1, service=None, workdir="/w")
                elif table == "filter":
                    i = await db.add_filter(name=f"f{len(ids[table])}", type="matching", config=v)
                else:
                    if not ids["step"] or not ids["token"]:
                        return
                    i = await db.add_execution(step_id=ids["step"][-1], job_token_id=ids["token"][-1], cmd="cmd")
                ids[table].append(i)
                hist.append(("add", table, i, client))
            elif kind <= 5 and table in updaters and ids[table]:
                i = ids[table][t.draw(len(ids[table]), "id")]
                col = JSON_COLS[table][0] if JSON_COLS[table] and t.draw(2, "json.col") else None
                if col:
                    newv = gen_value(t, "val") | {"u": len(hist)}
                    upd = {col: json.dumps(newv)}
                    field, val = col, newv
                elif table in ("workflow", "step", "execution"):
                    val = len(hist) + 10
                    upd = {"status": val}
                    field = "status"
                elif table == "target":
                    val = f"/w{len(hist)}"
                    upd = {"workdir": val}
                    field = "workdir"
                else:
                    val = f"renamed{len(hist)}"
                    upd = {"name": val}
                    field = "name"
                await updaters[table](i, upd)
                updates_done.setdefault((table, i), []).append((sim.loop.steps, field, val))
                hist.append(("update", table, i, field, client))
                sim.probe("update")
                if seq:
                    await check_get(table, i, client)
            elif ids[table]:
                i = ids[table][t.draw(len(ids[table]), "id")]
                await check_get(table, i, client)
                sim.probe("get")

        async def relations(client):
            # dependencies / provenance / listing getters against direct SQL
            if ids["step"] and ids["port"]:
                s, p = ids["step"][-1], ids["port"][-1]
                await db.add_dependency(s, p, DependencyType.INPUT, "in")
                got = [norm(r) for r in await db.get_input_ports(s)]
                want = [dict(zip(("step", "port", "type", "name"), r)) for r in raw.execute("SELECT step, port, type, name FROM dependency WHERE step=? AND type=0", (s,))]
                if canon(got) != canon(want):
                    raise Violation("wrong_relation_read", f"get_input_ports({s}) -> {got} expected {want}", signature="wrong_relation_read:dependency")
            if len(ids["token"]) >= 2:
                a, b = ids["token"][-2], ids["token"][-1]
                await db.add_provenance([a], b)
                got = sorted(r["dependee"] for r in await db.get_dependees(b))
                want = sorted(r[0] for r in raw.execute("SELECT dependee FROM provenance WHERE depender=?", (b,)))
                if got != want:
                    raise Violation("wrong_relation_read", f"get_dependees({b}) -> {got} expected {want}", signature="wrong_relation_read:provenance")
            if ids["workflow"]:
                w = ids["workflow"][-1]
                got = sorted(r["id"] for r in await db.get_workflow_steps(w))
                want = sorted(r[0] for r in raw.execute("SELECT id FROM step WHERE workflow=?", (w,)))
                if got != want:
                    raise Violation("wrong_relation_read", f"get_workflow_steps({w}) -> {got} expected {want}", signature="wrong_relation_read:workflow_steps")
                if seq:
                    # rows handed out by the list getters must be as independent of later reads as those of the single getters
                    for table, lister in (("step", db.get_workflow_steps), ("port", db.get_workflow_ports)):
                        rows = [r for r in await lister(w) if isinstance(r, dict)]
                        for r in rows:
                            rid = r["id"]
                            mutate(r)
                            sim.probe("listed_row_mutated")
                            again = await getters[table](rid)
                            a = copy.deepcopy(norm(again)) if again is not None else None
                            want_row = ref_row(raw, table, rid)
                            if canon(a) != canon(want_row):
                                raise Violation("caller_mutation_leaks", f"after mutating a row returned by get_workflow_{table}s({w}) get_{table}({rid}) returned {canon(a)[:400]} "
                                                f"instead of {canon(want_row)[:300]}", signature=f"caller_mutation_leaks:{table}:via_workflow_listing")

        async def client(c):
            for _ in range(nops // nclients):
                await do_op(c)
                if t.draw(8, "rel") == 7 and seq:
                    await relations(c)

        await asyncio.gather(*(asyncio.create_task(client(c), name=f"client{c}") for c in range(nclients)))
        # quiescence: every row through the API equals the reference
        for table in TABLES:
            for i in ids[table]:
                try:
                    got = await getters[table](i)
                except TypeError:
                    got = None
                g = copy.deepcopy(norm(got)) if got is not None else None
                want = ref_row(raw, table, i)
                if canon(g) != canon(want):
                    raise Violation("stale_cache_at_quiescence", f"after all clients finished get_{table}({i}) returns {canon(g)[:300]} but the database holds {canon(want)[:300]}",
                                    signature="stale_cache:read_overlapping_update")
        if stale:
            s0 = stale[0]
            raise Violation("update_not_visible", f"get_{s0[0]}({s0[1]}) invoked at step {s0[5]} returned {s0[2]}={s0[3]} although the update to {s0[4]} had returned at step {s0[6]}",
                            signature="stale_cache:read_overlapping_update")
        await ctx.close()

    sim.run(main())
    return {"nontrivial": nclients > 1 or sim.probes.get("update", 0) > 0, "sample": {"clients": nclients, "ops": len(hist), "rows": {k: len(v) for k, v in ids.items()}}}
