"""C16 — recovered runs produce the same outputs as failure-free runs."""
from __future__ import annotations

from ..core import Violation
from ..tape import Tape
from ..harness import prov
from ..harness import recshapes as S
from ..harness import recovery as R
from ..harness.engine import canon

from streamflow.core.workflow import Status

ID = "C16"
LEVEL = "fault_enumeration"
LEVEL_TEXT = ("fault dimension enumerated completely for small shapes (every (job, phase, soft|fail-stop, count 1..3) single-fault plan), "
              "multi-job fault plans, schedules and larger shapes sampled by seed; evidence, not proof")
RULE = (
    "shapes: pipelines of 1..5 schedule/transfer/execute pipelines, scatter/gather of 1..12 elements over 1..2 "
    "chained steps (list input or produced by a job), diamond; commands write real files in per-run scratch "
    "directories; fault plans: enumerated single-fault plans (enum=single: every job x phase in "
    "{schedule,transfer,execute} x {soft, fail-stop destroying the job's own directories} x count 1..3) for 6 small "
    "shapes, plus seeded multi-fault plans (1..4 (job,phase) entries, counts 1..3, fail-stop optionally destroying "
    "the output directories of seed-chosen ancestor jobs), plus enum=exctype: every (job, phase) of two shapes failing once with "
    "a timeout (asyncio.TimeoutError, as connector.run(timeout=..) raises), an OS-level error or a RuntimeError instead of "
    "a WorkflowExecutionException; RollbackFailureManager with max_retries=12. Oracle: run "
    "completes (no quiescence, no raise), output contents equal the sequential reference, every step COMPLETED, "
    "provenance of all workflows complete/acyclic (C07 oracle). non-trivial = at least one injected fault fired; "
    "distinct = distinct loop digests"
)
COMPONENTS = {
    "real": ["RollbackFailureManager (_recover, _synchronize_workflows, _inject_tokens, _populate_workflow, _update_request)",
             "recoverable decorator", "ProvenanceGraph / GraphMapper / DirectedAcyclicGraph", "WorkflowBuilder / loading context",
             "InterWorkflowPort / InterWorkflowJobPort", "ScheduleStep, TransferStep.run, ExecuteStep, ScatterStep.restore, GatherStep",
             "DefaultScheduler", "DefaultDataManager", "LocalConnector (real directories, real copies)", "FileToken.is_available", "SqliteDatabase"],
    "stub": ["SimCommand / SimOutputProcessor / SimTransferStep.transfer / SimScheduleStep (harness subclasses injecting faults and writing real files)",
             "subprocess seam (LocalConnector commands run synchronously at a simulated instant)", "aiosqlite thread -> FIFO server"],
}
ASSUMPTIONS = ["fail-stop destroys a declared set of directories (the failing job's own, optionally ancestors' outputs), never the workflow inputs",
               "max_retries is large enough that no job exhausts it (C17 covers exhaustion)"]
INTERLEAVE_CASES = False   # the enumerated fault classes run first and completely; seeded runs use what is left of the budget
TIERS = {"quick": {"runs": 700, "budget_s": 55}, "thorough": {"runs": 40000, "budget_s": 480}}
SIM_KW = {"max_steps": 3_000_000, "wall_cap": 120.0, "max_vtime": 1e7}

ENUM_SHAPES = [{"kind": "pipe", "k": 1}, {"kind": "pipe", "k": 3}, {"kind": "sg", "n": 2, "m": 1}, {"kind": "sg2", "n": 2, "m": 1},
               {"kind": "diamond"}, {"kind": "sg", "n": 3, "m": 2}]


def cases(tier):
    out = []
    shapes = ENUM_SHAPES[:3] if tier == "quick" else ENUM_SHAPES
    for si, shape in enumerate(ENUM_SHAPES):
        if shape not in shapes:
            continue
        for fi, _ in enumerate(S.single_fault_plans(shape, counts=(1, 2) if tier == "quick" else (1, 2, 3))):
            out.append({"enum": "single", "shape": si, "fault": fi, "counts": 2 if tier == "quick" else 3})
    # every input transfer of a multi-input job fails in the same attempt (each TransferStep reports its
    # own failure of the same job), alone and together with a later execute failure
    for kind in ("diamond", "fan"):
        for fk in ("soft", "stop"):
            for then_exec in (0, 1):
                out.append({"enum": "allinputs", "kind": kind, "fault_kind": fk, "then_exec": then_exec})
    # the failure surfaces as another exception type than WorkflowExecutionException: a timeout (what connector.run(timeout=..)
    # and connection attempts raise), an OS-level error, any other error - every (job, phase, type) of two small shapes
    for si in (1, 2):
        for ji in range(len(S.jobs_of(ENUM_SHAPES[si]))):
            for phase in S.PHASES:
                for exc in ("timeout", "oserror", "runtime"):
                    out.append({"enum": "exctype", "shape": si, "job": ji, "phase": phase, "exc": exc})
    return out


def check_result(sim, res, shape, faults, prop="C16"):
    d = S.desc(shape, faults)
    if res.status == "deadlock":
        overlapped = sim.probes.get("recoveries_overlapped", 0) > 0
        nested = any(f"{p}:{j}" for (p, j) in faults)  # noqa
        raise Violation("deadlock", f"recovery never completed (loop quiescent; recoveries overlapped: {overlapped}); "
                        f"pending={[(p['task'], p['at'][-2:]) for p in res.deadlock][:6]}; {d}",
                        signature="deadlock:" + ("concurrent_recoveries" if overlapped else "single_recovery"))
    if res.status == "raised":
        raise Violation("run_failed", f"executor raised although every job fails fewer times than the retry limit; errors={sim.errors[-3:]}; {d}",
                        signature=f"run_failed:{sim.errors[-1][:2] if sim.errors else None}")
    got = R.read_output(res.out)
    want = S.reference(shape)
    if canon(got) != canon(want):
        raise Violation("wrong_output", f"recovered run output {canon(got)[:500]} != failure-free {canon(want)[:500]}; {d}")
    for st in res.wf.steps.values():
        if st.status != Status.COMPLETED:
            raise Violation("step_not_completed", f"step {st.name} ended {st.status.name} after a recovered run; {d}")


def run(sim, params):
    t = sim.tape
    if params.get("enum") == "single":
        shape = ENUM_SHAPES[params["shape"]]
        faults = list(S.single_fault_plans(shape, counts=tuple(range(1, params["counts"] + 1))))[params["fault"]]
    elif params.get("enum") == "exctype":
        shape = ENUM_SHAPES[params["shape"]]
        job = sorted(S.jobs_of(shape))[params["job"]]
        faults = {(params["phase"], job): [{"kind": "soft", "lose": [], "exc": params["exc"]}]}
    elif params.get("enum") == "allinputs":
        shape = {"kind": params["kind"]}
        n = len(S.jobs_of(shape)["/D/0"])
        faults = {("transfer", "/D/0"): [{"kind": params["fault_kind"], "lose": []}] * n}
        if params["then_exec"]:
            faults[("execute", "/D/0")] = [{"kind": "stop", "lose": []}]
    else:
        shape = S.gen_shape(t)
        # the statement speaks of loss of the failed job's own data: no ancestor loss here (C18/C19 do that)
        faults = S.gen_faults(t, shape, allow_ancestors=False)
    res = S.execute(sim, shape, faults, max_retries=12, retry_delay=(0, 0, 3)[t.draw(3, "retry_delay")])
    check_result(sim, res, shape, faults)
    sim.drain()
    wfs = [res.wf]
    prov.check(res.ctx, wfs, S.desc(shape, faults))
    sim.run(res.ctx.close())
    fired = sum(sim.faults.values())
    return {"nontrivial": fired > 0, "sample": {"shape": shape, "faults": {f"{p}:{j}": [f["kind"] for f in fl] for (p, j), fl in faults.items()},
                                              "executions": dict(res.ctl.execs)}}
