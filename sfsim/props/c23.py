"""C23 — tar-stream copies are exact or fail, however the stream is chunked."""
from __future__ import annotations

import io
import os
import subprocess
import tarfile

from ..core import Violation
from ..tape import Tape
from ..harness import simstream as SS
from ..harness.engine import canon

from streamflow.core.exception import WorkflowExecutionException
from streamflow.deployment import aiotarstream
from streamflow.deployment.connector.base import extract_tar_stream

ID = "C23"
LEVEL = "fault_enumeration"
LEVEL_TEXT = ("for a fixed set of trees every chunk policy x every truncation class (and a flipped header byte) is enumerated; "
              "trees, producers, buffer sizes and latencies beyond that are sampled by seed; evidence, not proof")
RULE = (
    "each run builds a real file tree (0..9 entries, quick; 0..30 thorough: empty files/dirs, sizes around the 512-byte "
    "block, > 8 KiB, names > 100 bytes, spaces/quotes/unicode/leading dash, symlinks inside the tree, exec bits), "
    "archives it with one of: the repo's async tar writer (through a simulated writer stream), GNU tar in "
    "gnu/pax/ustar format, Python tarfile; then extracts it with aiotarstream + extract_tar_stream from a simulated "
    "reader stream cut by a chunk policy (1, 7, 511, 512, 513, 4096, large, random, exactly-at-block-boundary) with "
    "simulated latency per read, optionally truncated at a boundary class (inside header, after header, inside "
    "data, after data, inside padding, at a member boundary, before / inside the end-of-archive blocks) or with one "
    "flipped header byte; enum=stale: a stale regular file in the destination at the path of an empty directory of the archive. enum=grid: 4 trees x 9 policies x all truncation classes. Oracle: untruncated => extracted "
    "tree == source tree (contents, structure, exec bits; symlinks dereferenced) for every chunking, and archives "
    "written by the repo are listed and extracted identically by `tar` and tarfile; truncated/corrupted => the "
    "copy raises, or the destination is complete (cut inside trailing padding) - never success with a missing or "
    "short file; a non-yielding loop is caught by the wall-clock watchdog. non-trivial = chunk policy other than "
    "'large' or a fault injected; distinct = distinct (tree, producer, policy, fault) digests"
)
COMPONENTS = {
    "real": ["aiotarstream.AioTarStream (reader and writer), AioTarInfo, SeekableStreamReaderWrapper, TellableStreamWrapper, FileStreamReaderWrapper, copyfileobj/write",
             "connector.base.extract_tar_stream", "GNU tar and Python tarfile as independent producers/consumers (run synchronously)"],
    "stub": ["SimReader/SimWriter: the byte stream of a subprocess pipe (chunking, latency, truncation, EPIPE)"],
}
ASSUMPTIONS = ["a stream cut inside the zero padding that follows the end-of-archive marker loses nothing and may succeed"]
INTERLEAVE_CASES = False   # the enumerated fault classes run first and completely; seeded runs use what is left of the budget
TIERS = {"quick": {"runs": 1500, "budget_s": 55}, "thorough": {"runs": 100000, "budget_s": 480}}
SIM_KW = {"max_steps": 3_000_000, "wall_cap": 20.0}

PRODUCERS = ("repo", "gnu", "pax", "ustar", "pytar", "pytar_pax")
FAULTS = ("none", "none", "none", "truncate", "truncate", "flip")
CLASSES = ("in_header", "after_header", "in_data", "after_data", "in_padding", "member_boundary", "before_eof_blocks", "in_eof_blocks", "in_first_header")


def cases(tier):
    out = []
    for ts in range(4 if tier == "quick" else 12):
        for pi, pol in enumerate(SS.POLICIES):
            out.append({"enum": "grid", "tree_seed": 500 + ts, "policy": pol, "fault": "none", "producer": PRODUCERS[(ts + pi) % 5]})
            for ci, cl in enumerate(CLASSES):
                out.append({"enum": "grid", "tree_seed": 500 + ts, "policy": pol, "fault": "truncate", "klass": cl, "producer": PRODUCERS[(ts + ci) % 5]})
    # destination fault: a stale regular file sits where the archive has an (empty) directory - the copy must fail,
    # not report success with the directory missing
    for ts in range(24 if tier == "quick" else 200):
        out.append({"enum": "stale", "tree_seed": 700 + ts, "policy": SS.POLICIES[ts % len(SS.POLICIES)], "fault": "stale_file", "producer": PRODUCERS[ts % len(PRODUCERS)]})
    return out


def cut_points(data):
    """boundary class -> list of byte offsets, computed with the standard tarfile parser."""
    pts = {c: [] for c in CLASSES}
    tf = tarfile.open(fileobj=io.BytesIO(data), mode="r:")
    members = tf.getmembers()
    for i, m in enumerate(members):
        pts["in_header" if i else "in_first_header"].append(m.offset + 100)
        pts["after_header"].append(m.offset_data)
        if m.isreg() and m.size > 0:
            pts["in_data"].append(m.offset_data + max(1, m.size // 2))
            end = m.offset_data + m.size
            padded = m.offset_data + ((m.size + 511) // 512) * 512
            if padded > end:
                pts["after_data"].append(end)
                pts["in_padding"].append(end + (padded - end) // 2 or end)
        if i:
            pts["member_boundary"].append(m.offset)
    last = members[-1] if members else None
    if last is not None:
        end = last.offset_data + ((last.size + 511) // 512) * 512 if last.isreg() else last.offset_data
        pts["before_eof_blocks"].append(end)
        pts["in_eof_blocks"].append(end + 512)
    return {k: [p for p in v if 0 < p < len(data)] for k, v in pts.items()}, members


def run(sim, params):
    t = sim.tape
    gt = Tape(seed=params["tree_seed"]) if "tree_seed" in params else t
    src_root = os.path.join(sim.scratch, "src")
    os.makedirs(src_root)
    top, spec = SS.make_tree(src_root, gt, big=params.get("big", False))
    src = os.path.join(src_root, top)
    if params.get("fault") == "stale_file" and spec[""][0] == "dir" and "zz-empty" not in spec:
        os.makedirs(os.path.join(src, "zz-empty"))
        spec["zz-empty"] = ("dir",)
    producer = params.get("producer") or PRODUCERS[t.draw(len(PRODUCERS), "producer")]
    policy = params.get("policy") or SS.POLICIES[t.draw(len(SS.POLICIES), "policy")]
    fault = params.get("fault") or FAULTS[t.draw(len(FAULTS), "fault")]
    bufsize = (None, 2 ** 16, 4096, 100, 512)[t.draw(5, "bufsize")]
    info = {"top": top, "entries": {k: (v[0], len(v[1]) if v[0] == "file" else v[1:] and v[1]) for k, v in spec.items()},
            "producer": producer, "policy": policy, "fault": fault, "bufsize": bufsize}

    # ---- produce the archive ------------------------------------------------------------------
    if producer == "repo":
        w = SS.SimWriter()

        async def produce():
            async with aiotarstream.open(stream=w, format=tarfile.GNU_FORMAT, mode="w", dereference=True, copybufsize=bufsize) as tar:
                await tar.add(src, arcname=top)

        sim.run(produce())
        data = bytes(w.buf)
        # archives written by the repo must be readable by the standard tools
        p = subprocess.run(["tar", "-tf", "-"], input=data, capture_output=True)
        if p.returncode != 0:
            raise Violation("writer_archive_rejected", f"GNU tar rejects the archive written by the async writer: {p.stderr.decode()[:200]}; case={canon(info)[:500]}",
                            signature="writer_archive_rejected:gnu_tar")
        ext = os.path.join(sim.scratch, "ext_gnu")
        os.makedirs(ext)
        p = subprocess.run(["tar", "-xpf", "-", "-C", ext], input=data, capture_output=True)
        d = SS.diff_trees(SS.expected_files(spec), SS.read_tree(os.path.join(ext, top))) if p.returncode == 0 else p.stderr.decode()[:200]
        if d:
            raise Violation("writer_archive_differs", f"tree extracted by GNU tar from the async writer's archive differs: {d}; case={canon(info)[:500]}",
                            signature="writer_archive_differs")
        try:
            with tarfile.open(fileobj=io.BytesIO(data), mode="r:") as tf:
                tf.getmembers()
        except tarfile.TarError as e:
            raise Violation("writer_archive_rejected", f"tarfile rejects the archive written by the async writer: {e}", signature="writer_archive_rejected:tarfile")
        sim.probe("repo_writer_checked_by_tar")
    elif producer in ("gnu", "pax", "ustar"):
        p = subprocess.run(["tar", f"--format={producer}", "-chf", "-", "-C", src_root, "--", top] if not top.startswith("-") else
                           ["tar", f"--format={producer}", "-chf", "-", "-C", src_root, "./" + top], capture_output=True)
        if p.returncode != 0:
            p = subprocess.run(["tar", "--format=gnu", "-chf", "-", "-C", src_root, "--", top], capture_output=True)
        data = p.stdout
    else:
        bio = io.BytesIO()
        with tarfile.open(fileobj=bio, mode="w", format=tarfile.PAX_FORMAT if producer == "pytar_pax" else tarfile.GNU_FORMAT, dereference=True) as tf:
            tf.add(src, arcname=top)
        data = bio.getvalue()
    # ---- fault --------------------------------------------------------------------------------
    cut = None
    klass = None
    complete_after_cut = False
    if fault == "truncate":
        pts, members = cut_points(data)
        klass = params.get("klass") or CLASSES[t.draw(len(CLASSES), "trunc.class")]
        cands = pts.get(klass) or [p for v in pts.values() for p in v]
        if cands:
            cut = cands[t.draw(len(cands), "trunc.which")]
            data_in = data[:cut]
            sim.fault(f"truncate.{klass}")
            # everything (incl. the end-of-archive marker) delivered? then nothing is lost
            last = members[-1]
            end = last.offset_data + (((last.size + 511) // 512) * 512 if last.isreg() else 0)
            complete_after_cut = cut >= end + 1024
        else:
            data_in = data
            fault = "none"
    elif fault == "flip":
        pts, members = cut_points(data)
        m = members[t.draw(len(members), "flip.member")]
        off = m.offset + (0, 100, 124, 148, 156)[t.draw(5, "flip.field")]
        data_in = data[:off] + bytes([data[off] ^ 0x55]) + data[off + 1:]
        sim.fault("flip_header_byte")
    else:
        data_in = data
    info["cut"] = cut
    info["class"] = klass
    # ---- extract through the simulated stream ---------------------------------------------------
    dst = os.path.join(sim.scratch, "dst", top if t.draw(2, "rename") else "renamed")
    os.makedirs(os.path.dirname(dst))
    if fault == "stale_file":
        data_in = data
        empties = sorted(k for k, v in spec.items() if v[0] == "dir" and k and not any(o != k and o.startswith(k + "/") for o in spec))
        if empties:
            # an existing destination directory receives the source INSIDE it (extract_tar_stream): the copy lands in dst/<top>
            final_root = os.path.join(dst, top)
            stale = os.path.join(final_root, empties[0])
            os.makedirs(os.path.dirname(stale), exist_ok=True)
            with open(stale, "w") as f:
                f.write("stale")
            klass = "at_empty_directory"
            sim.fault("stale_file_at_directory_path")
        else:
            fault = "none"
    else:
        final_root = dst
    if fault != "stale_file":
        final_root = dst
    reader = SS.SimReader(data_in, policy, t)
    outcome = {}

    async def extract():
        try:
            async with aiotarstream.open(stream=reader, mode="r", copybufsize=bufsize) as tar:
                await extract_tar_stream(tar, src, dst, bufsize)
            outcome["status"] = "ok"
        except (tarfile.TarError, WorkflowExecutionException, EOFError, OSError) as e:   # OSError: raised by the extraction itself (e.g. FileExistsError)
            outcome["status"] = "raised"
            outcome["error"] = f"{type(e).__name__}: {e}"

    sim.run(extract())
    got = SS.read_tree(final_root)
    want = SS.expected_files(spec)
    d = SS.diff_trees(want, got)
    sigpol = "short_reads" if policy in ("1", "7", "511", "513", "random", "block_boundary") else "aligned_reads"
    if fault == "none":
        if outcome["status"] != "ok":
            raise Violation("intact_stream_rejected", f"extraction of an intact archive raised {outcome.get('error')}; case={canon(info)[:600]}",
                            signature=f"intact_stream_rejected:{producer}:{sigpol}")
        if d:
            raise Violation("extracted_tree_differs", f"intact archive, chunk policy {policy}: {d}; case={canon(info)[:600]}",
                            signature=f"extracted_tree_differs:{sigpol}")
    else:
        if outcome["status"] == "ok" and d and not complete_after_cut:
            raise Violation("silent_partial_copy", f"{fault} ({klass}, cut at {cut} of {len(data)}) but the copy reported success with {d}; case={canon(info)[:600]}",
                            signature=f"silent_partial_copy:{fault}:{klass}")
        if outcome["status"] == "ok" and not d:
            sim.probe("fault_harmless_copy_complete")
        if outcome["status"] == "raised":
            sim.probe("fault_detected_raised")
    nontrivial = policy != "large" or fault != "none"
    import zlib
    return {"nontrivial": nontrivial, "sig": zlib.crc32(canon([sorted(info["entries"].items()), producer, policy, fault, klass, cut]).encode()),
            "sample": {"top": top, "entries": len(spec), "producer": producer, "policy": policy, "fault": fault, "class": klass, "archive_bytes": len(data), "reads": reader.reads}}
