"""C01 — scatter then gather returns the original list in its original order."""
from __future__ import annotations

from ..core import Violation
from ..harness import engine as H
from ..harness.engine import SimParallel, SimTransformer, canon, inject, make_context, plain, to_token

from streamflow.core.exception import WorkflowExecutionException
from streamflow.core.workflow import Workflow
from streamflow.workflow.executor import StreamFlowExecutor
from streamflow.workflow.step import GatherStep, ScatterStep
from streamflow.workflow.token import ListToken, TerminationToken

ID = "C01"
LEVEL = "exploration"
RULE = (
    "each run draws (from the seed) 1..3 list values of nesting depth 1..3 (lengths incl. 0,1,10,11,13), "
    "element kind scalar/list/object, initial tags of depth 1..3, an element-wise transformer, an optional "
    "forwarder on each size port, and one delay profile for every DB statement / transformer call; "
    "a run is non-trivial when at least one non-zero delay was applied (arrival order at the gather differs "
    "from the zero-delay FIFO baseline); distinct = distinct event-loop digests (callback sequence x virtual time)"
)
COMPONENTS = {
    "real": ["ScatterStep", "GatherStep", "Transformer.run", "Port", "StreamFlowExecutor",
             "SqliteDatabase (real sqlite3, real SQL)", "compare_tags", "asyncio primitives"],
    "stub": ["aiosqlite worker thread -> FIFO server on virtual time", "SimTransformer.transform (harness element-wise function)"],
}
ASSUMPTIONS = [
    "ready queue stays FIFO; only I/O durations, timer ties and task-identity order vary (DESIGN.md 1.2)",
    "the element-wise step is the harness SimTransformer (a pure function with seeded latency)",
]
TIERS = {
    "quick": {"runs": 2500, "budget_s": 45},
    "thorough": {"runs": 120000, "budget_s": 420},
}
SIM_KW = {"max_steps": 300_000, "wall_cap": 60.0}

LENS = (0, 1, 2, 3, 10, 11, 13, 5, 24)
H.FUNCS["count2"] = lambda name, vals: sum(len(x) for x in vals[0])


def _gen_value(sim, depth, kind, budget):
    """Nested list of nesting ``depth``; returns (value, leaves)."""
    t = sim.tape
    if depth == 0:
        c = budget[0]
        budget[0] += 1
        if kind == 0:
            return c
        if kind == 1:
            return [c, f"s{c}"]
        if kind == 2:
            return {"__obj__": True, "a": c, "b": [c]}
        return f"é{c}"
    if depth == 1:
        n = LENS[t.draw(len(LENS), "len")]
    else:
        n = t.draw(5, "len.outer")
    n = min(n, max(0, 40 - budget[0]))
    return [_gen_value(sim, depth - 1, kind, budget) for _ in range(n)]


def _fmap(v, depth, f):
    if depth == 0:
        return f(v)
    return [_fmap(x, depth - 1, f) for x in v]


def run(sim, params):
    t = sim.tape
    depth = 1 + t.draw(3, "depth")
    kind = t.draw(4, "elem.kind")
    fn = ("id", "wrap")[t.draw(2, "fn")]
    # tags as the engine produces them: the root tag is always "0"; deeper tags are siblings
    # under it (as an enclosing scatter or loop would emit them)
    base_tags = [("0",), ("0", "3"), ("0", "3", "12"), ("0", "9")]
    bt = base_tags[t.draw(len(base_tags), "tag.base")]
    ntok = 1 + (t.draw(3, "n.lists") if len(bt) > 1 else 0)
    tags = []
    for i in range(ntok):
        tags.append(".".join(bt[:-1] + (str(int(bt[-1]) + i),)))
    values = []
    budget = [0]
    for i in range(ntok):
        values.append(_gen_value(sim, depth, kind, budget))
    size_fwd = [t.draw(2, f"size.fwd{i}") for i in range(depth)]
    # the element-wise step: sequential (a Transformer keeps arrival order) or one task per
    # element (like an ExecuteStep running jobs concurrently: completion order is seed-chosen)
    parallel = t.draw(3, "elementwise.parallel") > 0
    # flat mode: the two innermost scatter levels are gathered by ONE GatherStep(depth=2) whose
    # size token is the total number of leaves (what the translator builds for flat_crossproduct)
    flat = depth >= 2 and t.draw(3, "flat.gather") == 2
    if flat and t.draw(2, "flat.wide"):
        # many outer elements so that a non-last tag component reaches 10+
        values = [[[c] if depth == 2 else [[c]] for c in range(12)] for _ in values] if depth == 2 else values
    info = {"depth": depth, "kind": kind, "fn": fn, "tags": tags, "values": values, "size_fwd": size_fwd, "flat": flat, "parallel": parallel}

    async def main():
        ctx = make_context(sim)
        wf = Workflow(context=ctx, name="w", config={})
        p_in = wf.create_port()
        cur = p_in
        scatters = []
        for i in range(depth):
            sc = wf.create_step(ScatterStep, name=f"/s{i}-scatter")
            sc.add_input_port("x", cur)
            sc.add_output_port("x", wf.create_port())
            scatters.append(sc)
            cur = sc.get_output_port("x")
        tr = wf.create_step(SimParallel if parallel else SimTransformer, name="/t", fn=fn)
        tr.add_input_port("x", cur)
        tr.add_output_port("x", wf.create_port())
        cur = tr.get_output_port("x")
        levels = list(reversed(range(depth)))
        if flat:
            # total leaf count below each token entering the second-innermost scatter
            cnt = wf.create_step(SimTransformer, name="/count2", fn="count2")
            cnt.add_input_port("x", scatters[depth - 2].get_input_port("x"))
            cnt.add_output_port("n", wf.create_port())
            g = wf.create_step(GatherStep, name="/flat-gather", size_port=cnt.get_output_port("n"), depth=2)
            g.add_input_port("x", cur)
            g.add_output_port("x", wf.create_port())
            cur = g.get_output_port("x")
            levels = levels[2:]
        for i in levels:
            size_port = scatters[i].get_size_port()
            if size_fwd[i]:
                fw = wf.create_step(SimTransformer, name=f"/szfwd{i}", fn="id")
                fw.add_input_port("n", size_port)
                fw.add_output_port("n", wf.create_port())
                size_port = fw.get_output_port("n")
            g = wf.create_step(GatherStep, name=f"/s{i}-gather", size_port=size_port)
            g.add_input_port("x", cur)
            g.add_output_port("x", wf.create_port())
            cur = g.get_output_port("x")
        out_port = cur
        wf.output_ports["out"] = out_port.name
        await wf.save(ctx.database)
        await inject(p_in, [to_token(v, tag) for v, tag in zip(values, tags)], ctx)
        try:
            await StreamFlowExecutor(wf).run()
        except WorkflowExecutionException as e:
            raise Violation("run_failed", f"executor raised without any injected fault: {e}; case={canon(info)[:800]}")
        return wf, out_port, ctx

    wf, out_port, ctx = sim.run(main())
    sim.drain()
    toks = out_port.token_list
    if not toks or not isinstance(toks[-1], TerminationToken):
        raise Violation("no_termination", f"gather output does not end with a termination token: {H.port_contents(out_port)}")
    data = toks[:-1]
    if any(isinstance(x, TerminationToken) for x in data):
        raise Violation("early_termination", f"termination token before the end: {H.port_contents(out_port)}")
    f = (lambda v: v) if fn == "id" else (lambda v: {"f": "/t", "v": [v]})
    expected = {tag: _fmap(v, depth, f) for v, tag in zip(values, tags)}
    if flat:
        def _flatten(v, d):
            # concatenate the two innermost list levels (row-major = original order)
            if d == 2:
                return [y for x in v for y in x]
            return [_flatten(x, d - 1) for x in v]
        expected = {tag: _flatten(v, depth) for tag, v in expected.items()}
        sim.probe("flat_depth2_gather")
    got = {}
    for x in data:
        if not isinstance(x, ListToken):
            raise Violation("not_a_list", f"gather emitted {type(x).__name__} tag={x.tag}")
        if x.tag in got:
            raise Violation("duplicate_output", f"two list tokens with tag {x.tag}; case={canon(info)[:800]}")
        got[x.tag] = plain(x)
    if set(got) != set(expected):
        raise Violation("wrong_tags", f"output tags {sorted(got)} != input tags {sorted(expected)}; case={canon(info)[:800]}")
    for tag in expected:
        if canon(got[tag]) != canon(expected[tag]):
            raise Violation(
                "wrong_order_or_content",
                f"tag {tag}: got {canon(got[tag])[:600]} expected {canon(expected[tag])[:600]}; case={canon(info)[:600]}",
            )
    if parallel:
        sim.probe("parallel_elementwise")
    sim.run(ctx.close())
    return {"sample": {"depth": depth, "elem_kind": kind, "fn": fn, "tags": tags,
                       "lens": [len(v) for v in values], "size_fwd": size_fwd}}
