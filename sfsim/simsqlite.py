"""aiosqlite without the worker thread: one FIFO server per connection (DESIGN.md §1.2).

The real ``aiosqlite.Connection``/``Cursor`` classes are reused so the number of round
trips per API call is exactly the library's; only the thread hop is simulated. A request is
queued; the server runs it when it reaches the head of the queue, after a seeded service
time; results are delivered strictly in issue order.
"""
from __future__ import annotations

import asyncio
import sqlite3
from collections import deque
from functools import partial

from aiosqlite.core import Connection as _RealConnection
from aiosqlite.cursor import Cursor  # noqa: F401  (re-export)

from . import core

Row = sqlite3.Row
_SENTINEL = object()


class Connection(_RealConnection):
    def __init__(self, connector, iter_chunk_size=64):
        super().__init__(connector, iter_chunk_size)
        self._sq = deque()
        self._serving = False
        self.name = "db"

    def __del__(self):  # never warn / never touch a thread
        return

    # -- FIFO server ---------------------------------------------------------------------
    def _submit(self, fn):
        loop = asyncio.get_event_loop()
        fut = loop.create_future()
        self._sq.append((fut, fn))
        if not self._serving:
            self._serve_next(loop)
        return fut

    def _serve_next(self, loop):
        if not self._sq:
            self._serving = False
            return
        self._serving = True
        sim = core.CURRENT
        d = sim.delay("db", self.name) if sim is not None else 0.0
        if d <= 0:
            loop.call_soon(self._finish, loop)
        else:
            loop.call_later(d, self._finish, loop)

    def _finish(self, loop):
        fut, fn = self._sq.popleft()
        try:
            res = fn()
        except BaseException as e:  # noqa
            if not fut.done():
                fut.set_exception(e)
        else:
            if not fut.done():
                fut.set_result(res)
        self._serve_next(loop)

    # -- overrides of the thread-based plumbing --------------------------------------------
    async def _execute(self, fn, *args, **kwargs):
        if not self._running or not self._connection:
            raise ValueError("Connection closed")
        return await self._submit(partial(fn, *args, **kwargs))

    async def _connect(self):
        if self._connection is None:
            self._connection = await self._submit(self._connector)
        return self

    def __await__(self):
        return self._connect().__await__()

    def stop(self):
        self._running = False

        def close_and_stop():
            if self._connection is not None:
                self._connection.close()
                self._connection = None
            return _SENTINEL

        try:
            return self._submit(close_and_stop)
        except Exception:
            return None


def connect(database, *, iter_chunk_size=64, loop=None, **kwargs):
    def connector():
        return sqlite3.connect(str(database), **kwargs)

    return Connection(connector, iter_chunk_size)
